//! Native replay / translator-validation driver.
//!
//! Reads a JSON document `{"scenarios": [ {"ops": [...]}, ... ]}` and executes every scenario against the real
//! canister code (public API wherever the property is stated there), printing one JSON result per scenario.
//! Used (a) to validate the MIR interpreter on concrete inputs and (b) to replay solver counterexamples.
use bitcoin::{block::Header, Address as BtcAddress, Network as BtcNetwork};
use ic_btc_canister::{state, types as ctypes, unstable_blocks, with_state, with_state_mut};
use ic_btc_interface::{
    Flag, GetBalanceRequest, GetBlockHeadersRequest, GetUtxosRequest, InitConfig, Network, NetworkInRequest,
    UtxosFilterInRequest,
};
use ic_btc_test_utils::{BlockBuilder, TransactionBuilder};
use ic_btc_types::Block;
use serde_json::{json, Value};
use std::collections::BTreeMap;
use std::panic::{catch_unwind, AssertUnwindSafe};
use std::str::FromStr;

fn net_of(s: &str) -> Network {
    match s {
        "mainnet" | "Mainnet" => Network::Mainnet,
        "testnet" | "Testnet" => Network::Testnet,
        _ => Network::Regtest,
    }
}

fn req_net(n: Network) -> NetworkInRequest {
    match n {
        Network::Mainnet => NetworkInRequest::Mainnet,
        Network::Testnet => NetworkInRequest::Testnet,
        Network::Regtest => NetworkInRequest::Regtest,
    }
}

/// Deterministic regtest addresses (P2PKH over fixed 20-byte hashes), index -> address.
fn address(i: u64) -> BtcAddress {
    use bitcoin::hashes::Hash;
    let mut prog = [0u8; 20];
    prog[0] = (i & 0xff) as u8;
    prog[1] = ((i >> 8) & 0xff) as u8;
    prog[19] = 0x5a;
    let _ = BtcNetwork::Regtest;
    BtcAddress::p2pkh(bitcoin::PubkeyHash::from_byte_array(prog), bitcoin::NetworkKind::Test)
}

struct World {
    network: Network,
    blocks: BTreeMap<u64, Block>,
    addr_override: BTreeMap<u64, String>,
}

impl World {
    fn addr_string(&self, i: u64) -> String {
        self.addr_override.get(&i).cloned().unwrap_or_else(|| address(i).to_string())
    }

    fn build_block(&mut self, op: &Value) -> Block {
        let parent = op["parent"].as_u64();
        let mut b = match parent {
            Some(p) if self.blocks.contains_key(&p) => {
                BlockBuilder::with_prev_header(*self.blocks[&p].header())
            }
            _ => BlockBuilder::genesis(),
        };
        // distinct coinbase per block id so that block hashes differ between siblings
        let id = op["id"].as_u64().unwrap_or(0);
        let mut cb = TransactionBuilder::coinbase().with_lock_time(id as u32 + 1);
        if let Some(outs) = op["coinbase"].as_array() {
            for o in outs {
                let a = BtcAddress::from_str(&self.addr_string(o[0].as_u64().unwrap())).unwrap().assume_checked();
                cb = cb.with_output(&a, o[1].as_u64().unwrap());
            }
        } else {
            cb = cb.with_output(&address(60000 + id), 5_000_000_000);
        }
        b = b.with_transaction(cb.build());
        if let Some(txs) = op["txs"].as_array() {
            for tx in txs {
                let mut t = TransactionBuilder::new();
                for i in tx["inputs"].as_array().unwrap() {
                    // [block id, tx index in block, vout]
                    let blk = &self.blocks[&i[0].as_u64().unwrap()];
                    let txid = blk.txdata()[i[1].as_u64().unwrap() as usize].txid();
                    let op = bitcoin::OutPoint {
                        txid: bitcoin::Txid::from_str(&txid.to_string()).unwrap(),
                        vout: i[2].as_u64().unwrap() as u32,
                    };
                    t = t.with_input(op, None);
                }
                for o in tx["outputs"].as_array().unwrap() {
                    let a = BtcAddress::from_str(&self.addr_string(o[0].as_u64().unwrap())).unwrap().assume_checked();
                    t = t.with_output(&a, o[1].as_u64().unwrap());
                }
                if let Some(lt) = tx["lock_time"].as_u64() {
                    t = t.with_lock_time(lt as u32);
                }
                b = b.with_transaction(t.build());
            }
        }
        let mut block = Block::new(b.build());
        if let Some(d) = op["difficulty"].as_u64() {
            block.mock_difficulty = Some(d as u128);
        } else if let Some(d) = op["difficulty"].as_str() {
            block.mock_difficulty = Some(d.parse::<u128>().unwrap());
        }
        self.blocks.insert(id, block.clone());
        block
    }
}

fn block_on<F: std::future::Future>(f: F) -> F::Output {
    let mut f = Box::pin(f);
    let waker = std::task::Waker::noop();
    let mut cx = std::task::Context::from_waker(&waker);
    loop {
        if let std::task::Poll::Ready(v) = f.as_mut().poll(&mut cx) {
            return v;
        }
    }
}

/// consensus serialisation of a transaction of (about) the requested size: the size is steered by the
/// length of the single output script; returns the exact bytes
fn valid_tx_bytes(n: usize) -> Vec<u8> {
    use bitcoin::consensus::Encodable;
    let mut script_len = n.saturating_sub(70);
    loop {
        let tx = bitcoin::Transaction {
            version: bitcoin::transaction::Version(1),
            lock_time: bitcoin::absolute::LockTime::from_consensus(0),
            input: vec![bitcoin::TxIn {
                previous_output: bitcoin::OutPoint::null(),
                script_sig: bitcoin::ScriptBuf::new(),
                sequence: bitcoin::Sequence(0xffffffff),
                witness: bitcoin::Witness::new(),
            }],
            output: vec![bitcoin::TxOut { value: bitcoin::Amount::from_sat(1), script_pubkey: bitcoin::ScriptBuf::from_bytes(vec![0x6a; script_len]) }],
        };
        let mut buf = vec![];
        tx.consensus_encode(&mut buf).unwrap();
        if buf.len() >= n || script_len > n + 10 {
            return buf;
        }
        script_len += n - buf.len();
    }
}

fn block_id_of(w: &World, hash: &[u8]) -> Value {
    for (id, b) in w.blocks.iter() {
        if b.block_hash().to_vec() == hash {
            return json!(id);
        }
    }
    json!(hex::encode(hash))
}

fn header_id_of(w: &World, header_bytes: &[u8]) -> Value {
    use bitcoin::consensus::Decodable;
    match Header::consensus_decode(&mut &header_bytes[..]) {
        Ok(h) => {
            let hh = ic_btc_types::BlockHash::from(h.block_hash());
            block_id_of(w, &hh.to_vec())
        }
        Err(_) => json!("undecodable"),
    }
}

/// one page request of a pagination schedule (first request or continuation from `next_page`)
#[allow(clippy::too_many_arguments)]
fn serve_page(w: &World, txs: &BTreeMap<u64, bitcoin::Transaction>, pg: &Value, next_page: &mut Option<Vec<u8>>, done: &mut bool,
              pages: &mut Vec<Value>, at: u64, first: bool) {
    let a = if pg["address"].as_str() == Some("B") { 8 } else { 7 };
    let limit = pg["limit"].as_u64();
    let filter = if first && pg.get("token").is_some() {
        // an arbitrary page token: tip block id (or an unknown hash), height relative to the current stable height, outpoint
        let tk = &pg["token"];
        let mut bytes: Vec<u8> = match tk["tip"].as_u64().and_then(|id| w.blocks.get(&id)) {
            Some(b) => b.block_hash().to_vec(),
            None => vec![0xab; 32],
        };
        let sh = with_state(|s| s.stable_height()) as i64;
        let h = (sh + tk["height_rel"].as_i64().unwrap_or(0)).clamp(0, u32::MAX as i64) as u32;
        bytes.extend(h.to_be_bytes().iter().map(|b| b ^ 255));
        use bitcoin::hashes::Hash;
        match tk["tx"].as_u64().and_then(|l| txs.get(&l)) {
            Some(t) => bytes.extend_from_slice(t.compute_txid().as_raw_hash().as_byte_array()),
            None => bytes.extend_from_slice(&[0xcd; 32]),
        }
        bytes.extend_from_slice(&(tk["vout"].as_u64().unwrap_or(0) as u32).to_le_bytes());
        Some(ic_btc_interface::UtxosFilterInRequest::Page(serde_bytes::ByteBuf::from(bytes)))
    } else if first {
        pg["min_confirmations"].as_u64().map(|c| ic_btc_interface::UtxosFilterInRequest::MinConfirmations(c as u32))
    } else {
        Some(ic_btc_interface::UtxosFilterInRequest::Page(serde_bytes::ByteBuf::from(next_page.clone().unwrap())))
    };
    let label_of = |txid: &str| -> Value {
        for (l, t) in txs.iter() { if t.compute_txid().to_string() == txid { return json!(l); } }
        json!(txid)
    };
    let req = GetUtxosRequest { address: w.addr_string(a), network: NetworkInRequest::Regtest, filter };
    // without a limit the real endpoint (page size 1000) answers, else the hook with the chosen page size
    let r = catch_unwind(AssertUnwindSafe(|| match limit {
        Some(l) => ic_btc_canister::verif_get_utxos_with_limit(req.into(), l as usize),
        None => ic_btc_canister::get_utxos_query(req),
    }));
    match r {
        Err(e) => {
            let msg = e.downcast_ref::<String>().cloned().or_else(|| e.downcast_ref::<&str>().map(|s| s.to_string())).unwrap_or_default();
            pages.push(json!({"at": at, "trap": msg}));
            *done = true;
        }
        Ok(Err(e)) => { pages.push(json!({"at": at, "err": format!("{:?}", e)})); *done = true; }
        Ok(Ok(r)) => {
            pages.push(json!({"at": at, "tip": block_id_of(w, &r.tip_block_hash), "tip_height": r.tip_height, "has_next": r.next_page.is_some(),
                "stable_height": with_state(|s| s.stable_height()),
                "utxos": r.utxos.iter().map(|x| json!([label_of(&x.outpoint.txid.to_string()), x.outpoint.vout, x.value, x.height])).collect::<Vec<_>>()}));
            *next_page = r.next_page.map(|p| p.to_vec());
            if next_page.is_none() { *done = true; }
        }
    }
}

fn run_op(w: &mut World, op: &Value) -> Value {
    let kind = op["op"].as_str().unwrap_or("");
    match kind {
        "init" => {
            w.network = net_of(op["network"].as_str().unwrap_or("regtest"));
            let thr = op["threshold"].as_u64().unwrap_or(2) as u128;
            ic_btc_canister::init(InitConfig {
                stability_threshold: Some(thr),
                network: Some(w.network),
                api_access: Some(Flag::Enabled),
                disable_api_if_not_fully_synced: Some(Flag::Disabled),
                ..Default::default()
            });
            // optionally a stable prefix: `stable_prefix` = k > 0 puts k blocks (genesis and k - 1 more) into the stable set and
            // makes the scenario's anchor (id 1) the root of the unstable tree at height k
            let k = op["stable_prefix"].as_u64().unwrap_or(0);
            if k > 0 && op.get("anchor").is_some() {
                with_state_mut(|s| s.unstable_blocks.set_stability_threshold(1));
                let mut prev = with_state(|s| *unstable_blocks::get_main_chain(&s.unstable_blocks).tip().block().header());
                for i in 1..k {
                    let cb = TransactionBuilder::coinbase().with_lock_time(7000 + i as u32).with_output(&address(50000 + i), 77).build();
                    let mut blk = Block::new(BlockBuilder::with_prev_header(prev).with_transaction(cb).build());
                    blk.mock_difficulty = Some(1);
                    prev = *blk.header();
                    with_state_mut(|s| unstable_blocks::push(&mut s.unstable_blocks, &s.utxos, blk).unwrap());
                }
                // the scenario anchor as a child of the prefix
                let mut spec = op["anchor"].clone();
                spec["parent"] = json!(900000u64);
                w.blocks.insert(900000, Block::new(bitcoin::Block { header: prev, txdata: vec![] }));
                let anchor = w.build_block(&spec);
                w.blocks.remove(&900000);
                with_state_mut(|s| unstable_blocks::push(&mut s.unstable_blocks, &s.utxos, anchor).unwrap());
                let mut guard = 0;
                while with_state(|s| s.stable_height()) < k as u32 && guard < 64 {
                    guard += 1;
                    let _ = with_state_mut(state::ingest_stable_blocks_into_utxoset);
                }
                with_state_mut(|s| s.unstable_blocks.set_stability_threshold(thr as u32));
                return json!({"stable_height": with_state(|s| s.stable_height())});
            }
            // replace the genesis anchor by the scenario's anchor (id 1) so that its difficulty can be chosen
            if op.get("anchor").is_some() {
                let blk = w.build_block(&op["anchor"]);
                let cache = unstable_blocks::BlocksCacheInStableMem::new(
                    w.network,
                    ic_btc_canister::memory::get_unstable_blocks_memory(),
                );
                let mut st = state::State::new(cache, thr as u32, w.network, blk);
                st.disable_api_if_not_fully_synced = Flag::Disabled;
                with_state_mut(|s| *s = st);
            }
            json!("ok")
        }
        "push" => {
            // direct insertion into the unstable tree (no header validation), as the repository's own tests do
            let blk = w.build_block(op);
            let r = with_state_mut(|s| unstable_blocks::push(&mut s.unstable_blocks, &s.utxos, blk));
            json!(if r.is_ok() { "ok" } else { "does_not_extend" })
        }
        "insert_block" => {
            let blk = w.build_block(op);
            let r = with_state_mut(|s| state::insert_block(s, blk));
            match r {
                Ok(()) => json!("ok"),
                Err(e) => json!(format!("{:?}", e)),
            }
        }
        "ingest" => {
            let r = with_state_mut(state::ingest_stable_blocks_into_utxoset);
            match r {
                ctypes::Slicing::Paused(()) => json!("paused"),
                ctypes::Slicing::Done(b) => json!({ "done": b }),
            }
        }
        "set_threshold" => {
            with_state_mut(|s| s.unstable_blocks.set_stability_threshold(op["threshold"].as_u64().unwrap() as u32));
            json!("ok")
        }
        "info" => {
            let i = ic_btc_canister::get_blockchain_info();
            json!({"height": i.height, "tip": block_id_of(w, &i.block_hash), "timestamp": i.timestamp,
                   "difficulty": i.difficulty.to_string(), "utxos_length": i.utxos_length})
        }
        "main_chain" => {
            let ids: Vec<Vec<u8>> = with_state(|s| {
                unstable_blocks::get_main_chain(&s.unstable_blocks)
                    .into_chain()
                    .iter()
                    .map(|b| {
                        b.block().block_hash().to_vec()
                    })
                    .collect()
            });
            let len = with_state(|s| unstable_blocks::get_main_chain_length(&s.unstable_blocks));
            json!({"chain": ids.iter().map(|h| block_id_of(w, h)).collect::<Vec<_>>(), "len": len,
                   "stable_height": with_state(|s| s.stable_height())})
        }
        "utxos" => {
            let filter = if let Some(p) = op["page"].as_str() {
                Some(UtxosFilterInRequest::Page(serde_bytes::ByteBuf::from(hex::decode(p).unwrap())))
            } else {
                op["min_conf"].as_u64().map(|c| UtxosFilterInRequest::MinConfirmations(c as u32))
            };
            let addr = op["address"].as_str().map(|s| s.to_string()).unwrap_or_else(|| w.addr_string(op["addr"].as_u64().unwrap_or(0)));
            let r = ic_btc_canister::get_utxos(GetUtxosRequest {
                address: addr,
                network: req_net(w.network),
                filter,
            });
            match r {
                Ok(resp) => json!({
                    "tip": block_id_of(w, &resp.tip_block_hash), "tip_height": resp.tip_height,
                    "utxos": resp.utxos.iter().map(|u| json!({"value": u.value, "height": u.height,
                         "txid": u.outpoint.txid.to_string(), "vout": u.outpoint.vout})).collect::<Vec<_>>(),
                    "next_page": resp.next_page.map(|p| hex::encode(p.into_vec())),
                }),
                Err(e) => json!({"err": format!("{:?}", e)}),
            }
        }
        "balance" => {
            let addr = op["address"].as_str().map(|s| s.to_string()).unwrap_or_else(|| w.addr_string(op["addr"].as_u64().unwrap_or(0)));
            let r = ic_btc_canister::get_balance(GetBalanceRequest {
                address: addr,
                network: req_net(w.network),
                min_confirmations: op["min_conf"].as_u64().map(|c| c as u32),
            });
            match r {
                Ok(b) => json!({ "balance": b }),
                Err(e) => json!({"err": format!("{:?}", e)}),
            }
        }
        "headers" => {
            let r = ic_btc_canister::get_block_headers(GetBlockHeadersRequest {
                start_height: op["start"].as_u64().unwrap_or(0) as u32,
                end_height: op["end"].as_u64().map(|e| e as u32),
                network: req_net(w.network),
            });
            match r {
                Ok(resp) => json!({"tip_height": resp.tip_height,
                    "headers": resp.block_headers.iter().map(|h| header_id_of(w, h)).collect::<Vec<_>>()}),
                Err(e) => json!({"err": format!("{:?}", e)}),
            }
        }
        "depth_bound" => {
            // the real f64 function, for a table of thresholds at one block count
            let n = op["n"].as_u64().unwrap() as usize;
            let ts: Vec<u64> = match op["thresholds"].as_array() {
                Some(a) => a.iter().map(|x| x.as_u64().unwrap()).collect(),
                None => (0..=500).collect(),
            };
            json!(ts
                .iter()
                .map(|t| unstable_blocks::testnet_unstable_max_depth_difference(n, *t as u32).get())
                .collect::<Vec<_>>())
        }
        "cycles" => {
            use ic_btc_canister::runtime::verif_hooks as vh;
            let g = |k: &str| op["fees"][k].as_str().map(|x| x.parse::<u128>().unwrap()).unwrap_or(0);
            let fees = ic_btc_interface::Fees {
                get_utxos_base: g("get_utxos_base"),
                get_utxos_cycles_per_ten_instructions: g("get_utxos_cycles_per_ten_instructions"),
                get_utxos_maximum: g("get_utxos_maximum"),
                get_current_fee_percentiles: g("get_current_fee_percentiles"),
                get_current_fee_percentiles_maximum: g("get_current_fee_percentiles_maximum"),
                get_balance: g("get_balance"),
                get_balance_maximum: g("get_balance_maximum"),
                send_transaction_base: g("send_transaction_base"),
                send_transaction_per_byte: g("send_transaction_per_byte"),
                get_block_headers_base: g("get_block_headers_base"),
                get_block_headers_cycles_per_ten_instructions: g("get_block_headers_cycles_per_ten_instructions"),
                get_block_headers_maximum: g("get_block_headers_maximum"),
            };
            with_state_mut(|s| s.fees = fees);
            vh::set_cycles_available(op["avail"].as_str().map(|x| x.parse::<u128>().unwrap()));
            vh::reset_cycles_balance();
            vh::set_performance_counter(op["ins"].as_u64().unwrap_or(0));
            let bad = op["inner"].as_str() == Some("err");
            let addr = if bad { "notanaddress".to_string() } else { w.addr_string(7) };
            let ep = op["endpoint"].as_str().unwrap_or("");
            let net = req_net(w.network);
            let r = catch_unwind(AssertUnwindSafe(|| match ep {
                "get_utxos" => ic_btc_canister::get_utxos(GetUtxosRequest { address: addr.clone(), network: net, filter: None }).is_ok(),
                "get_utxos_query" => ic_btc_canister::get_utxos_query(GetUtxosRequest { address: addr.clone(), network: net, filter: None }).is_ok(),
                "get_balance" => ic_btc_canister::get_balance(GetBalanceRequest { address: addr.clone(), network: net, min_confirmations: None }).is_ok(),
                "get_balance_query" => ic_btc_canister::get_balance_query(GetBalanceRequest { address: addr.clone(), network: net, min_confirmations: None }).is_ok(),
                "get_block_headers" => ic_btc_canister::get_block_headers(GetBlockHeadersRequest {
                    start_height: if bad { 1_000_000 } else { 0 }, end_height: None, network: net }).is_ok(),
                "get_current_fee_percentiles" => {
                    ic_btc_canister::get_current_fee_percentiles(ic_btc_interface::GetCurrentFeePercentilesRequest { network: net });
                    true
                }
                "send_transaction" => {
                    let n = op["len"].as_u64().unwrap_or(0) as usize;
                    let tx = if bad { vec![0xffu8; n] } else { valid_tx_bytes(n) };
                    let fut = ic_btc_canister::send_transaction(ic_btc_interface::SendTransactionRequest { network: net, transaction: tx });
                    block_on(fut).is_ok()
                }
                _ => false,
            }));
            let accepted = vh::cycles_balance();
            vh::set_cycles_available(None);
            json!({"outcome": match r { Ok(true) => "ok", Ok(false) => "err", Err(_) => "trap" }, "accepted": accepted.to_string()})
        }
        "gate" => {
            let on = |b: bool| if b { Flag::Enabled } else { Flag::Disabled };
            with_state_mut(|s| {
                s.api_access = on(op["access"].as_bool().unwrap_or(true));
                s.disable_api_if_not_fully_synced = on(op["sync_flag"].as_bool().unwrap_or(false));
            });
            let net = match op["request_net"].as_str().unwrap_or("regtest") {
                "Mainnet" => NetworkInRequest::Mainnet,
                "mainnet" => NetworkInRequest::mainnet,
                "Testnet" => NetworkInRequest::Testnet,
                "testnet" => NetworkInRequest::testnet,
                "Regtest" => NetworkInRequest::Regtest,
                _ => NetworkInRequest::regtest,
            };
            let addr = w.addr_string(7);
            let ep = op["endpoint"].as_str().unwrap_or("");
            let r = catch_unwind(AssertUnwindSafe(|| match ep {
                "get_utxos" => { let _ = ic_btc_canister::get_utxos(GetUtxosRequest { address: addr.clone(), network: net, filter: None }); }
                "get_utxos_query" => { let _ = ic_btc_canister::get_utxos_query(GetUtxosRequest { address: addr.clone(), network: net, filter: None }); }
                "get_balance" => { let _ = ic_btc_canister::get_balance(GetBalanceRequest { address: addr.clone(), network: net, min_confirmations: None }); }
                "get_balance_query" => { let _ = ic_btc_canister::get_balance_query(GetBalanceRequest { address: addr.clone(), network: net, min_confirmations: None }); }
                "get_block_headers" => { let _ = ic_btc_canister::get_block_headers(GetBlockHeadersRequest { start_height: 0, end_height: None, network: net }); }
                "get_current_fee_percentiles" => { let _ = ic_btc_canister::get_current_fee_percentiles(ic_btc_interface::GetCurrentFeePercentilesRequest { network: net }); }
                "send_transaction" => { let _ = block_on(ic_btc_canister::send_transaction(ic_btc_interface::SendTransactionRequest { network: net, transaction: valid_tx_bytes(80) })); }
                _ => {}
            }));
            json!(if r.is_ok() { "answered" } else { "refused" })
        }
        "announce" => {
            // `count` valid headers on top of block `on`, offered as next block headers
            use bitcoin::consensus::Encodable;
            let mut prev = *w.blocks[&op["on"].as_u64().unwrap()].header();
            let mut blobs = vec![];
            for k in 0..op["count"].as_u64().unwrap_or(1) {
                let b = BlockBuilder::with_prev_header(prev).build();
                // optionally remember the (never delivered) block of the announced header under a scenario id
                if let Some(id) = op["ids"][k as usize].as_u64() { w.blocks.insert(id, Block::new(b.clone())); }
                let mut v = vec![];
                b.header.consensus_encode(&mut v).unwrap();
                blobs.push(ctypes::BlockHeaderBlob::from(v));
                prev = b.header;
            }
            with_state_mut(|s| state::insert_next_block_headers(s, &blobs));
            json!({"announced": blobs.len()})
        }
        "watchdog_decision" => {
            let hs: Vec<Option<u64>> = op["heights"].as_array().unwrap().iter().map(|x| x.as_u64()).collect();
            let r = watchdog::verif_hooks::decision(op["target"].as_u64().unwrap() as usize, op["canister_height"].as_u64(), hs);
            json!(match r { Some(true) => "enable", Some(false) => "disable", None => "none" })
        }
        "transform" => {
            let headers: Vec<(String, String)> = op["headers"].as_array().map(|a| a.iter().map(|h| (h[0].as_str().unwrap().to_string(), h[1].as_str().unwrap().to_string())).collect()).unwrap_or_default();
            let body = hex::decode(op["body_hex"].as_str().unwrap_or("")).unwrap();
            match watchdog::verif_hooks::transform(op["name"].as_str().unwrap(), op["status"].as_u64().unwrap_or(200), headers, body) {
                Some((status, nheaders, body)) => json!({"status": status, "headers": nheaders, "body": String::from_utf8_lossy(&body), "body_hex": hex::encode(&body)}),
                None => json!("unknown transform"),
            }
        }
        "validate_block_structure" => {
            // txs: labels; equal labels = the same transaction; label 0 = a coinbase
            let labels: Vec<u64> = op["txs"].as_array().unwrap().iter().map(|x| x.as_u64().unwrap()).collect();
            let mk = |l: u64| -> bitcoin::Transaction {
                if l == 0 {
                    TransactionBuilder::coinbase().with_output(&address(1), 50).build()
                } else {
                    TransactionBuilder::new()
                        .with_input(bitcoin::OutPoint { txid: bitcoin::Txid::from_str(&format!("{:064x}", l)).unwrap(), vout: 0 }, None)
                        .with_output(&address(l), 1000 + l)
                        .build()
                }
            };
            // optional witness variant per transaction: k > 0 attaches the witness [k] (same txid, another wtxid)
            let txdata: Vec<bitcoin::Transaction> = labels.iter().enumerate().map(|(i, l)| {
                let mut t = mk(*l);
                if let Some(k) = op["witness"][i].as_u64() {
                    if k > 0 && !t.input.is_empty() { t.input[0].witness = bitcoin::Witness::from_slice(&[vec![k as u8]]); }
                }
                t
            }).collect();
            let committed: Vec<bitcoin::Transaction> = match op["merkle"].as_str() {
                Some("of_prefix") => txdata[..op["prefix"].as_u64().unwrap() as usize].to_vec(),
                _ => txdata.clone(),
            };
            let root = bitcoin::merkle_tree::calculate_root(committed.iter().map(|t| *t.compute_txid().as_raw_hash()));
            use bitcoin::hashes::Hash;
            let mut merkle_root = match root {
                Some(r) => bitcoin::TxMerkleNode::from_raw_hash(r),
                None => bitcoin::TxMerkleNode::from_raw_hash(bitcoin::hashes::sha256d::Hash::all_zeros()),
            };
            if op["merkle"].as_str() == Some("wrong") {
                merkle_root = bitcoin::TxMerkleNode::from_raw_hash(bitcoin::hashes::sha256d::Hash::hash(b"wrong"));
            }
            let header = Header {
                version: bitcoin::block::Version::from_consensus(1),
                prev_blockhash: bitcoin::BlockHash::from_raw_hash(bitcoin::hashes::sha256d::Hash::all_zeros()),
                merkle_root,
                time: 0,
                bits: bitcoin::CompactTarget::from_consensus(0x207fffff),
                nonce: 0,
            };
            let block = bitcoin::Block { header, txdata };
            match ic_btc_validation::verif_validate_block_structure(&block) {
                Ok(()) => json!("Ok"),
                Err(e) => json!(format!("{:?}", e)),
            }
        }
        "validate_header" => {
            use bitcoin::consensus::Decodable;
            struct Store { by_hash: BTreeMap<Vec<u8>, Header>, by_height: BTreeMap<u32, Header>, tip: u32 }
            impl ic_btc_validation::HeaderStore for Store {
                fn get_with_block_hash(&self, hash: &bitcoin::BlockHash) -> Option<Header> {
                    use bitcoin::hashes::Hash;
                    self.by_hash.get(&hash.to_byte_array().to_vec()).copied()
                }
                fn get_with_height(&self, height: u32) -> Option<Header> { self.by_height.get(&height).copied() }
                fn height(&self) -> u32 { self.tip }
            }
            let dec = |h: &str| Header::consensus_decode(&mut &hex::decode(h).unwrap()[..]).unwrap();
            let mut st = Store { by_hash: BTreeMap::new(), by_height: BTreeMap::new(), tip: op["tip_height"].as_u64().unwrap() as u32 };
            for (h, v) in op["headers"].as_object().unwrap() {
                let hd = dec(v.as_str().unwrap());
                use bitcoin::hashes::Hash;
                st.by_hash.insert(hd.block_hash().to_byte_array().to_vec(), hd);
                st.by_height.insert(h.parse().unwrap(), hd);
            }
            let net = match op["network"].as_str().unwrap() {
                "Bitcoin" => BtcNetwork::Bitcoin,
                "Testnet" => BtcNetwork::Testnet,
                "Testnet4" => BtcNetwork::Testnet4,
                "Signet" => BtcNetwork::Signet,
                _ => BtcNetwork::Regtest,
            };
            let cand = dec(op["candidate"].as_str().unwrap());
            let v = ic_btc_validation::HeaderValidator::new(st, net);
            match v.validate_header(&cand, std::time::Duration::from_secs(op["now"].as_u64().unwrap())) {
                Ok(()) => json!("Ok"),
                Err(e) => {
                    let s = format!("{:?}", e);
                    json!(s.split(|c: char| c == ' ' || c == '{' || c == '(').next().unwrap().to_string())
                }
            }
        }
        "send_tx" => {
            let on = |b: bool| if b { Flag::Enabled } else { Flag::Disabled };
            with_state_mut(|s| s.api_access = on(op["access"].as_bool().unwrap_or(true)));
            let net = match op["request_net"].as_str().unwrap_or("regtest") {
                "Mainnet" => NetworkInRequest::Mainnet,
                "mainnet" => NetworkInRequest::mainnet,
                "Testnet" => NetworkInRequest::Testnet,
                "testnet" => NetworkInRequest::testnet,
                "Regtest" => NetworkInRequest::Regtest,
                _ => NetworkInRequest::regtest,
            };
            let mut tx = match op["kind"].as_str().unwrap_or("valid") {
                "garbage" => vec![0xffu8; 40],
                "empty" => vec![],
                "truncated" => { let mut v = valid_tx_bytes(90); v.truncate(v.len() - 3); v }
                _ => valid_tx_bytes(90),
            };
            if let Some(h) = op["hex"].as_str() { tx = hex::decode(h).unwrap(); }
            for _ in 0..op["trailing"].as_u64().unwrap_or(0) { tx.push(0); }
            let before = with_state(|s| s.metrics.send_transaction_count);
            let r = catch_unwind(AssertUnwindSafe(|| block_on(ic_btc_canister::send_transaction(
                ic_btc_interface::SendTransactionRequest { network: net, transaction: tx.clone() }))));
            let after = with_state(|s| s.metrics.send_transaction_count);
            json!({"result": match r { Ok(Ok(())) => "Ok".to_string(), Ok(Err(e)) => format!("{:?}", e), Err(_) => "trap".to_string() },
                   "count_delta": after - before, "len": tx.len()})
        }
        "fetch_script" => {
            use ic_btc_canister::runtime::{set_successors_responses, GetSuccessorsReply};
            use ic_btc_canister::types::{GetSuccessorsCompleteResponse, GetSuccessorsPartialResponse, GetSuccessorsResponse};
            use ic_cdk::call::RejectCode;
            // blocks offered by the source: a regtest chain on top of the canister's genesis
            let genesis = Block::new(bitcoin::blockdata::constants::genesis_block(BtcNetwork::Regtest));
            let mut prev = *genesis.header();
            let mut next_block = || {
                let b = BlockBuilder::with_prev_header(prev).build();
                prev = b.header;
                let mut bytes = vec![];
                use bitcoin::consensus::Encodable;
                b.consensus_encode(&mut bytes).unwrap();
                bytes
            };
            let mut replies = vec![];
            let mut pages: Vec<Vec<u8>> = vec![];
            for r in op["replies"].as_array().unwrap() {
                match r[0].as_str().unwrap() {
                    "complete" => {
                        let n = r[1].as_u64().unwrap();
                        let blocks = (0..n).map(|_| next_block()).collect();
                        replies.push(GetSuccessorsReply::Ok(GetSuccessorsResponse::Complete(GetSuccessorsCompleteResponse { blocks, next: vec![] })));
                    }
                    "partial" => {
                        let k = r[1].as_u64().unwrap() as usize;
                        let bytes = next_block();
                        // k follow-up pages, every one of them carrying data (one byte each, the first page the rest), so that a
                        // block that is declared complete too early or too late cannot decode
                        let parts = (k + 1).min(bytes.len());
                        let cut = bytes.len() - (parts - 1);
                        let first = bytes[..cut].to_vec();
                        pages = bytes[cut..].iter().map(|b| vec![*b]).collect();
                        while pages.len() < k { pages.push(vec![]); }
                        replies.push(GetSuccessorsReply::Ok(GetSuccessorsResponse::Partial(GetSuccessorsPartialResponse {
                            partial_block: first, next: vec![], remaining_follow_ups: k as u8 })));
                    }
                    "followup" => {
                        let page = if pages.is_empty() { vec![] } else { pages.remove(0) };
                        replies.push(GetSuccessorsReply::Ok(GetSuccessorsResponse::FollowUp(page)));
                    }
                    _ => replies.push(GetSuccessorsReply::Err(RejectCode::CanisterReject, "rejected".to_string())),
                }
            }
            set_successors_responses(replies);
            let h0 = ic_btc_canister::get_blockchain_info().height;
            let mut traps = 0;
            let mut last_trap = String::new();
            for _ in 0..op["heartbeats"].as_u64().unwrap_or(10) {
                let r = catch_unwind(AssertUnwindSafe(|| block_on(ic_btc_canister::heartbeat())));
                if let Err(e) = r {
                    traps += 1;
                    last_trap = e.downcast_ref::<String>().cloned().or_else(|| e.downcast_ref::<&str>().map(|s| s.to_string())).unwrap_or_default();
                    // IC semantics: the message is rolled back; the mock state is not, so the guard flag is restored by hand
                    with_state_mut(|s| s.syncing_state.is_fetching_blocks = false);
                }
            }
            let h1 = ic_btc_canister::get_blockchain_info().height;
            json!({"traps": traps, "applied": h1 - h0, "last_trap": last_trap})
        }
        "process_response" => {
            use ic_btc_canister::runtime::{set_successors_responses, GetSuccessorsReply};
            use ic_btc_canister::types::{GetSuccessorsCompleteResponse, GetSuccessorsResponse};
            use bitcoin::consensus::Encodable;
            if !w.blocks.contains_key(&1) {
                w.blocks.insert(1, Block::new(bitcoin::blockdata::constants::genesis_block(BtcNetwork::Regtest)));
            }
            let mut blobs = vec![];
            for b in op["blocks"].as_array().unwrap() {
                let kind = b["kind"].as_str().unwrap();
                let enc = |blk: &bitcoin::Block| { let mut v = vec![]; blk.consensus_encode(&mut v).unwrap(); v };
                match kind {
                    "garbage" => blobs.push(vec![0xde, 0xad, 0xbe, 0xef]),
                    "dup" => { let id = b["of"].as_u64().unwrap(); blobs.push(enc(w.blocks[&id].internal_bitcoin_block())); }
                    "orphan" => {
                        let fake_parent = BlockBuilder::genesis().with_transaction(TransactionBuilder::coinbase().with_lock_time(77).build()).build();
                        let blk = BlockBuilder::with_prev_header(fake_parent.header).build();
                        blobs.push(enc(&blk));
                    }
                    _ => {
                        let blk = w.build_block(&json!({"id": b["id"], "parent": b["parent"]}));
                        let mut raw = blk.internal_bitcoin_block().clone();
                        if kind == "bad_merkle" {
                            raw.txdata.push(TransactionBuilder::coinbase().with_lock_time(4242).build());
                            w.blocks.remove(&b["id"].as_u64().unwrap());
                        }
                        let mut bytes = enc(&raw);
                        if kind == "truncated" { bytes.truncate(bytes.len() - 5); w.blocks.remove(&b["id"].as_u64().unwrap()); }
                        blobs.push(bytes);
                    }
                }
            }
            set_successors_responses(vec![GetSuccessorsReply::Ok(GetSuccessorsResponse::Complete(GetSuccessorsCompleteResponse { blocks: blobs, next: vec![] }))]);
            let mut trap = None;
            for _ in 0..2 {
                let r = catch_unwind(AssertUnwindSafe(|| block_on(ic_btc_canister::heartbeat())));
                if let Err(e) = r {
                    trap = Some(e.downcast_ref::<String>().cloned().or_else(|| e.downcast_ref::<&str>().map(|s| s.to_string())).unwrap_or_default());
                    with_state_mut(|s| s.syncing_state.is_fetching_blocks = false);
                }
            }
            let hashes = with_state(|s| unstable_blocks::get_block_hashes(&s.unstable_blocks));
            let mut ids: Vec<Value> = hashes.iter().map(|h| block_id_of(w, &h.to_vec())).collect();
            ids.sort_by_key(|v| v.as_u64().unwrap_or(u64::MAX));
            let (de, ie) = with_state(|s| (s.syncing_state.num_block_deserialize_errors, s.syncing_state.num_insert_block_errors));
            json!({"tree": ids, "deserialize_errors": de, "insert_errors": ie, "trap": trap})
        }
        "sliced_ingest" => {
            use ic_btc_canister::runtime::verif_hooks as vh;
            // kinds: "A" -> address 7, "B" -> address 8, "" -> non-standard script, "OP_RETURN"
            let spk = |k: &str| -> bitcoin::ScriptBuf {
                match k {
                    "A" => address(7).script_pubkey(),
                    "B" => address(8).script_pubkey(),
                    "OP_RETURN" => bitcoin::ScriptBuf::from_bytes(vec![0x6a, 0x01, 0x42]),
                    _ => bitcoin::ScriptBuf::from_bytes(vec![0x51]),
                }
            };
            let mk_tx = |inputs: Vec<bitcoin::OutPoint>, outs: Vec<(u64, String)>, salt: u32| -> bitcoin::Transaction {
                let input = if inputs.is_empty() {
                    vec![bitcoin::TxIn { previous_output: bitcoin::OutPoint::null(), script_sig: bitcoin::ScriptBuf::new(),
                                         sequence: bitcoin::Sequence(0xffffffff), witness: bitcoin::Witness::new() }]
                } else {
                    inputs.into_iter().map(|o| bitcoin::TxIn { previous_output: o, script_sig: bitcoin::ScriptBuf::new(),
                                         sequence: bitcoin::Sequence(0xffffffff), witness: bitcoin::Witness::new() }).collect()
                };
                bitcoin::Transaction { version: bitcoin::transaction::Version(1), lock_time: bitcoin::absolute::LockTime::from_consensus(salt),
                    input, output: outs.iter().map(|(v, k)| bitcoin::TxOut { value: bitcoin::Amount::from_sat(*v), script_pubkey: spk(k) }).collect() }
            };
            let mk_block = |prev: &Header, txs: Vec<bitcoin::Transaction>| -> Block {
                let mut b = BlockBuilder::with_prev_header(*prev);
                for t in txs { b = b.with_transaction(t); }
                let mut blk = Block::new(b.build());
                blk.mock_difficulty = Some(1);
                blk
            };
            ic_btc_canister::init(InitConfig { stability_threshold: Some(1), network: Some(Network::Regtest), api_access: Some(Flag::Enabled),
                disable_api_if_not_fully_synced: Some(Flag::Disabled), ..Default::default() });
            let genesis_hdr = with_state(|s| *unstable_blocks::get_main_chain(&s.unstable_blocks).tip().block().header());
            // b2 creates the "stable" outputs in one coinbase
            let stable: Vec<String> = op["stable"].as_array().unwrap().iter().map(|x| x[2].as_str().unwrap().to_string()).collect();
            let cb2 = mk_tx(vec![], stable.iter().enumerate().map(|(i, k)| (1000 + 10 * i as u64, k.clone())).collect(), 2);
            let b2 = mk_block(&genesis_hdr, vec![cb2.clone()]);
            // b3: the block under test
            let mut txs3: Vec<bitcoin::Transaction> = vec![];
            for (ti, t) in op["spec"].as_array().unwrap().iter().enumerate() {
                let mut ins = vec![];
                for i in t["inputs"].as_array().unwrap() {
                    if i[0].as_str() == Some("S") {
                        ins.push(bitcoin::OutPoint { txid: cb2.compute_txid(), vout: i[1].as_u64().unwrap() as u32 });
                    } else {
                        ins.push(bitcoin::OutPoint { txid: txs3[i[1].as_u64().unwrap() as usize].compute_txid(), vout: i[2].as_u64().unwrap() as u32 });
                    }
                }
                let outs = t["outputs"].as_array().unwrap().iter().enumerate().map(|(oi, k)| (5000 + 100 * ti as u64 + oi as u64, k.as_str().unwrap().to_string())).collect();
                txs3.push(mk_tx(ins, outs, 300 + ti as u32));
            }
            let b3 = mk_block(b2.header(), txs3);
            let b4 = mk_block(b3.header(), vec![mk_tx(vec![], vec![(1, "B".to_string())], 4)]);
            for b in [b2.clone(), b3.clone()] {
                with_state_mut(|s| unstable_blocks::push(&mut s.unstable_blocks, &s.utxos, b).unwrap());
            }
            vh::set_performance_counter_step(0);
            vh::set_performance_counter(0);
            with_state_mut(state::ingest_stable_blocks_into_utxoset);      // genesis and b2 become stable, anchor = b3
            let query = |w: &World| -> Value {
                let q = |a: u64| {
                    let u = ic_btc_canister::get_utxos(GetUtxosRequest { address: w.addr_string(a), network: NetworkInRequest::Regtest, filter: None });
                    let b = ic_btc_canister::get_balance(GetBalanceRequest { address: w.addr_string(a), network: NetworkInRequest::Regtest, min_confirmations: None });
                    json!({"utxos": u.map(|r| (r.utxos.iter().map(|x| json!([x.outpoint.txid.to_string(), x.outpoint.vout, x.value, x.height])).collect::<Vec<_>>(), r.tip_height)).map_err(|e| format!("{:?}", e)).ok(),
                           "balance": b.ok()})
                };
                json!({"A": q(7), "B": q(8), "utxos_length": ic_btc_canister::get_blockchain_info().utxos_length, "stable_height": with_state(|s| s.stable_height())})
            };
            let before = query(w);
            with_state_mut(|s| unstable_blocks::push(&mut s.unstable_blocks, &s.utxos, b4).unwrap());
            let with_child = query(w);      // the tip moved (b4), the view of b3's effects must not
            let k = op["pause_every"].as_u64().unwrap_or(0);
            vh::set_performance_counter_step(if k == 0 { 0 } else { 1_000_000_000 / k + 1 });
            let mut rounds = 0;
            let mut differs = vec![];
            let mut trap: Option<String> = None;
            loop {
                rounds += 1;
                vh::set_performance_counter(0);
                let r = catch_unwind(AssertUnwindSafe(|| with_state_mut(state::ingest_stable_blocks_into_utxoset)));
                match r {
                    Err(e) => { trap = Some(e.downcast_ref::<String>().cloned().or_else(|| e.downcast_ref::<&str>().map(|s| s.to_string())).unwrap_or_default()); break; }
                    Ok(ctypes::Slicing::Paused(())) => {
                        vh::set_performance_counter_step(0);
                        let mid = query(w);
                        vh::set_performance_counter_step(if k == 0 { 0 } else { 1_000_000_000 / k + 1 });
                        if mid["A"] != with_child["A"] || mid["B"] != with_child["B"] || mid["utxos_length"] != with_child["utxos_length"] {
                            differs.push(json!({"round": rounds, "before": with_child.clone(), "during": mid}));
                        }
                    }
                    Ok(ctypes::Slicing::Done(_)) => break,
                }
                if rounds > 200 { trap = Some("ingestion does not finish".to_string()); break; }
            }
            vh::set_performance_counter_step(0);
            vh::set_performance_counter(0);
            let after = query(w);
            json!({"rounds": rounds, "differs": if differs.is_empty() { Value::Null } else { json!(differs) }, "trap": trap, "before": before, "after": after})
        }
        "history" => {
            use ic_btc_canister::runtime::verif_hooks as vh;
            vh::set_performance_counter_step(0);
            let spk = |k: &str| -> bitcoin::ScriptBuf {
                match k {
                    "A" => address(7).script_pubkey(),
                    "B" => address(8).script_pubkey(),
                    "OP_RETURN" => bitcoin::ScriptBuf::from_bytes(vec![0x6a, 0x01, 0x42]),
                    _ => bitcoin::ScriptBuf::from_bytes(vec![0x51]),
                }
            };
            // label -> real transaction
            let mut txs: BTreeMap<u64, bitcoin::Transaction> = BTreeMap::new();
            let mk_tx = |txs: &BTreeMap<u64, bitcoin::Transaction>, label: u64, inputs: Vec<(u64, u32)>, kinds: Vec<String>| -> bitcoin::Transaction {
                let input = if inputs.is_empty() {
                    vec![bitcoin::TxIn { previous_output: bitcoin::OutPoint::null(), script_sig: bitcoin::ScriptBuf::new(), sequence: bitcoin::Sequence(0xffffffff), witness: bitcoin::Witness::new() }]
                } else {
                    // optional witness data on every spending input (vsize < total size)
                    let wb = op["witness_bytes"].as_u64().unwrap_or(0) as usize;
                    inputs.iter().map(|(t, v)| bitcoin::TxIn { previous_output: bitcoin::OutPoint { txid: txs[t].compute_txid(), vout: *v },
                        script_sig: bitcoin::ScriptBuf::new(), sequence: bitcoin::Sequence(0xffffffff),
                        witness: if wb > 0 { bitcoin::Witness::from_slice(&[vec![7u8; wb]]) } else { bitcoin::Witness::new() } }).collect()
                };
                bitcoin::Transaction { version: bitcoin::transaction::Version(1), lock_time: bitcoin::absolute::LockTime::from_consensus(label as u32), input,
                    output: kinds.iter().enumerate().map(|(i, k)| bitcoin::TxOut {
                        value: bitcoin::Amount::from_sat(op["values"][format!("{}:{}", label, i)].as_u64().unwrap_or(1000 * label + i as u64)), script_pubkey: spk(k) }).collect() }
            };
            let mk_block = |prev: &Header, list: Vec<bitcoin::Transaction>| -> Block {
                let mut b = BlockBuilder::with_prev_header(*prev);
                for t in list { b = b.with_transaction(t); }
                let mut blk = Block::new(b.build());
                blk.mock_difficulty = Some(1);
                blk
            };
            ic_btc_canister::init(InitConfig { stability_threshold: Some(1), network: Some(Network::Regtest), api_access: Some(Flag::Enabled),
                disable_api_if_not_fully_synced: Some(Flag::Disabled), ..Default::default() });
            let mut prev = with_state(|s| *unstable_blocks::get_main_chain(&s.unstable_blocks).tip().block().header());
            // stable prefix: heights 1.. : tx 1 (two outputs) three blocks below the anchor, tx 2 one block below
            let stable = op["stable"].as_array().unwrap();
            let kinds_of = |t: u64| -> Vec<String> { stable.iter().filter(|x| x[0].as_u64() == Some(t)).map(|x| x[2].as_str().unwrap().to_string()).collect() };
            let t1 = mk_tx(&txs, 1, vec![], kinds_of(1)); txs.insert(1, t1.clone());
            let t2 = mk_tx(&txs, 2, vec![], kinds_of(2)); txs.insert(2, t2.clone());
            let mut prefix = vec![];
            let b = mk_block(&prev, vec![t1]); prev = *b.header(); prefix.push(b);
            let b = mk_block(&prev, vec![mk_tx(&txs, 900, vec![], vec!["".to_string()])]); prev = *b.header(); prefix.push(b);
            let b = mk_block(&prev, vec![t2]); prev = *b.header(); prefix.push(b);
            // history blocks
            let parents: Vec<u64> = op["parents"].as_array().unwrap().iter().map(|x| x.as_u64().unwrap()).collect();
            let n = parents.len() as u64 + 1;
            let mut hist_blocks: BTreeMap<u64, Block> = BTreeMap::new();
            let mut trap: Option<String> = None;
            let mut steps = vec![];
            let mut pages: Vec<Value> = vec![];
            let mut next_page: Option<Vec<u8>> = None;
            let mut paging_done = false;
            let label_of = |txs: &BTreeMap<u64, bitcoin::Transaction>, txid: &str| -> Value {
                for (l, t) in txs.iter() { if t.compute_txid().to_string() == txid { return json!(l); } }
                json!(txid)
            };
            for id in 1..=n {
                let parent_hdr = if id == 1 { prev } else { match hist_blocks.get(&parents[(id - 2) as usize]) { Some(b) => *b.header(), None => continue } };
                let mut list = vec![];
                let cbk = vec![if id % 2 == 1 { "A".to_string() } else { "B".to_string() }];
                let cb = mk_tx(&txs, 200 + id, vec![], cbk); txs.insert(200 + id, cb.clone()); list.push(cb);
                for t in op["content"][id.to_string()].as_array().map(|a| a.clone()).unwrap_or_default() {
                    let l = t.as_u64().unwrap();
                    let spec = &op["pool"][l.to_string()];
                    let ins: Vec<(u64, u32)> = spec[0].as_array().unwrap().iter().map(|i| (i[0].as_u64().unwrap(), i[1].as_u64().unwrap() as u32)).collect();
                    let kinds: Vec<String> = spec[1].as_array().unwrap().iter().map(|k| k.as_str().unwrap().to_string()).collect();
                    let tx = mk_tx(&txs, l, ins, kinds);
                    txs.insert(l, tx.clone());
                    list.push(tx);
                }
                let blk = mk_block(&parent_hdr, list);
                hist_blocks.insert(id, blk.clone());
                w.blocks.insert(id, blk.clone());
                let r = catch_unwind(AssertUnwindSafe(|| {
                    if id == 1 {
                        for b in prefix.iter() { with_state_mut(|s| unstable_blocks::push(&mut s.unstable_blocks, &s.utxos, b.clone()).unwrap()); }
                    }
                    let pushed = with_state_mut(|s| unstable_blocks::push(&mut s.unstable_blocks, &s.utxos, blk.clone()));
                    if pushed.is_err() { return false; }
                    with_state_mut(state::ingest_stable_blocks_into_utxoset);
                    if id == 1 {
                        with_state_mut(|s| s.unstable_blocks.set_stability_threshold(op["threshold"].as_u64().unwrap_or(1) as u32));
                    }
                    if op["upgrade_after"].as_u64() == Some(id) {
                        ic_btc_canister::pre_upgrade();
                        ic_btc_canister::post_upgrade(None);
                    }
                    true
                }));
                match r {
                    Err(e) => { trap = Some(e.downcast_ref::<String>().cloned().or_else(|| e.downcast_ref::<&str>().map(|s| s.to_string())).unwrap_or_default()); break; }
                    Ok(false) => { hist_blocks.remove(&id); continue; }
                    Ok(true) => {}
                }
                let q = |a: u64| -> Value {
                    match ic_btc_canister::get_utxos(GetUtxosRequest { address: w.addr_string(a), network: NetworkInRequest::Regtest, filter: None }) {
                        Ok(r) => json!({"tip": block_id_of(w, &r.tip_block_hash), "tip_height": r.tip_height,
                                        "utxos": r.utxos.iter().map(|x| json!([label_of(&txs, &x.outpoint.txid.to_string()), x.outpoint.vout, x.value, x.height])).collect::<Vec<_>>()}),
                        Err(e) => json!({"err": format!("{:?}", e)}),
                    }
                };
                let bal = |a: u64| ic_btc_canister::get_balance(GetBalanceRequest { address: w.addr_string(a), network: NetworkInRequest::Regtest, min_confirmations: None }).ok();
                let hashes = with_state(|s| unstable_blocks::get_block_hashes(&s.unstable_blocks));
                let (txo, added, removed, tips, cached) = with_state(|s| unstable_blocks::verif_bookkeeping(&s.unstable_blocks));
                let mut tipsv = tips.clone(); tipsv.sort();
                let ids = |v: &Vec<ic_btc_types::BlockHash>| { let mut x: Vec<Value> = v.iter().map(|h| block_id_of(w, &h.to_vec())).collect(); x.sort_by_key(|a| a.as_u64().unwrap_or(u64::MAX)); x };
                let book = json!({"tx_outs": txo.iter().map(|(o, c)| json!([label_of(&txs, &o.txid.to_string()), o.vout, c])).collect::<Vec<_>>(),
                                  "added": ids(&added), "removed": ids(&removed), "tips": tipsv, "cached": ids(&cached)});
                // pagination schedule: page requests issued after this step
                if let Some(pg) = op.get("paging") {
                    let at: Vec<u64> = pg["pages_at"].as_array().unwrap().iter().map(|x| x.as_u64().unwrap()).collect();
                    for (k, a) in at.iter().enumerate() {
                        if *a != id { continue; }
                        if k > 0 && (paging_done || next_page.is_none()) { continue; }
                        serve_page(w, &txs, pg, &mut next_page, &mut paging_done, &mut pages, id, k == 0);
                    }
                }
                steps.push(json!({"after": id, "book": book, "tree": hashes.iter().map(|h| block_id_of(w, &h.to_vec())).collect::<Vec<_>>(),
                                  "stable_height": with_state(|s| s.stable_height()), "A": q(7), "B": q(8), "balance_A": bal(7), "balance_B": bal(8),
                                  "fees": ic_btc_canister::get_current_fee_percentiles(ic_btc_interface::GetCurrentFeePercentilesRequest { network: NetworkInRequest::Regtest })}));
            }
            if let Some(pg) = op.get("paging") {
                // remaining pages on the final state
                let mut guard = 0;
                while trap.is_none() && !pages.is_empty() && !paging_done && next_page.is_some() && guard < 64 {
                    serve_page(w, &txs, pg, &mut next_page, &mut paging_done, &mut pages, 0, false);
                    guard += 1;
                }
            }
            json!({"trap": trap, "steps": steps, "pages": pages})
        }
        "utxos_page_blob" => {
            let blob: Vec<u8> = op["blob"].as_array().unwrap().iter().map(|x| x.as_u64().unwrap() as u8).collect();
            let req = GetUtxosRequest { address: w.addr_string(7), network: req_net(w.network),
                filter: Some(ic_btc_interface::UtxosFilterInRequest::Page(serde_bytes::ByteBuf::from(blob))) };
            match catch_unwind(AssertUnwindSafe(|| ic_btc_canister::get_utxos_query(req))) {
                Err(e) => json!({"trap": e.downcast_ref::<String>().cloned().or_else(|| e.downcast_ref::<&str>().map(|s| s.to_string())).unwrap_or_default()}),
                Ok(Err(e)) => json!({"err": format!("{:?}", e)}),
                Ok(Ok(r)) => json!({"ok": r.utxos.len()}),
            }
        }
        "percentiles" => {
            let vals: Vec<u64> = op["values"].as_array().unwrap().iter().map(|x| x.as_u64().unwrap()).collect();
            json!(ic_btc_canister::verif_percentiles(vals))
        }
        "headers_across_boundary" => {
            use ic_btc_canister::runtime::verif_hooks as vh;
            use bitcoin::consensus::Decodable;
            ic_btc_canister::init(InitConfig { stability_threshold: Some(1), network: Some(Network::Regtest), api_access: Some(Flag::Enabled),
                disable_api_if_not_fully_synced: Some(Flag::Disabled), ..Default::default() });
            vh::set_performance_counter_step(0);
            let mut prev = with_state(|s| *unstable_blocks::get_main_chain(&s.unstable_blocks).tip().block().header());
            let mut chain_hashes = vec![prev.block_hash()];
            let mut push_one = |prev: &mut Header, salt: u32, chain_hashes: &mut Vec<bitcoin::BlockHash>| {
                let cb = TransactionBuilder::coinbase().with_lock_time(salt).with_output(&address(1), 10).with_output(&address(2), 20).with_output(&address(3), 30).build();
                let mut blk = Block::new(BlockBuilder::with_prev_header(*prev).with_transaction(cb).build());
                blk.mock_difficulty = Some(1);
                *prev = *blk.header();
                chain_hashes.push(prev.block_hash());
                with_state_mut(|s| unstable_blocks::push(&mut s.unstable_blocks, &s.utxos, blk).unwrap());
            };
            // three blocks, stabilise what can be stabilised
            for i in 0..3 { push_one(&mut prev, 100 + i, &mut chain_hashes); }
            let _ = with_state_mut(state::ingest_stable_blocks_into_utxoset);
            for i in 0..op["unstable"].as_u64().unwrap_or(2) { push_one(&mut prev, 200 + i as u32, &mut chain_hashes); }
            let mut paused = false;
            if op["pause"].as_bool().unwrap_or(false) {
                vh::set_performance_counter(0);
                vh::set_performance_counter_step(1_000_000_000 / 2 + 1);
                let r = with_state_mut(state::ingest_stable_blocks_into_utxoset);
                paused = matches!(r, ctypes::Slicing::Paused(()));
                vh::set_performance_counter_step(0);
            } else {
                let _ = with_state_mut(state::ingest_stable_blocks_into_utxoset);
            }
            let mut queries = vec![];
            let phases: Vec<&str> = if op["resume"].as_bool().unwrap_or(false) { vec!["first", "after-resume"] } else { vec!["first"] };
            let mut tip = 0;
            for phase in phases {
            if phase == "after-resume" {
                // finish the paused ingestion (and whatever else can stabilise) without further pauses
                let mut guard = 0;
                while guard < 16 {
                    guard += 1;
                    vh::set_performance_counter(0);
                    match with_state_mut(state::ingest_stable_blocks_into_utxoset) { ctypes::Slicing::Paused(()) => continue, _ => break }
                }
            }
            tip = ic_btc_canister::get_blockchain_info().height;
            for s_ in 0..=tip {
                for e_ in s_..=tip {
                    let r = ic_btc_canister::get_block_headers(GetBlockHeadersRequest { start_height: s_, end_height: Some(e_), network: NetworkInRequest::Regtest });
                    let mut problem = Value::Null;
                    match r {
                        Err(e) => problem = json!(format!("{:?}", e)),
                        Ok(resp) => {
                            let hs: Vec<Header> = resp.block_headers.iter().filter_map(|b| Header::consensus_decode(&mut &b[..]).ok()).collect();
                            if hs.len() as u32 != e_ - s_ + 1 {
                                problem = json!(format!("{} headers for heights {}..={}", hs.len(), s_, e_));
                            } else {
                                for (k, h) in hs.iter().enumerate() {
                                    if h.block_hash() != chain_hashes[(s_ as usize) + k] { problem = json!(format!("header {} of range {}..={} is not the best-chain block at its height", k, s_, e_)); }
                                    if k > 0 && h.prev_blockhash != hs[k - 1].block_hash() { problem = json!(format!("header {} of range {}..={} is not linked to its predecessor", k, s_, e_)); }
                                }
                            }
                        }
                    }
                    queries.push(json!({"start": s_, "end": e_, "problem": problem, "phase": phase}));
                }
            }
            }
            json!({"paused": paused, "stable_height": with_state(|s| s.stable_height()), "tip": tip, "queries": queries})
        }
        "tree" => {
            let hashes = with_state(|s| unstable_blocks::get_block_hashes(&s.unstable_blocks));
            json!({"blocks": hashes.iter().map(|h| block_id_of(w, &h.to_vec())).collect::<Vec<_>>(),
                   "stable_height": with_state(|s| s.stable_height())})
        }
        _ => json!({ "unknown_op": kind }),
    }
}

fn run_scenario(sc: &Value) -> Value {
    let mut w = World { network: Network::Regtest, blocks: BTreeMap::new(), addr_override: BTreeMap::new() };
    if let Some(m) = sc["addresses"].as_object() {
        for (k, v) in m {
            w.addr_override.insert(k.parse().unwrap(), v.as_str().unwrap().to_string());
        }
    }
    let mut out = vec![];
    for op in sc["ops"].as_array().unwrap() {
        let r = catch_unwind(AssertUnwindSafe(|| run_op(&mut w, op)));
        match r {
            Ok(v) => out.push(v),
            Err(e) => {
                let msg = e
                    .downcast_ref::<String>()
                    .cloned()
                    .or_else(|| e.downcast_ref::<&str>().map(|s| s.to_string()))
                    .unwrap_or_default();
                out.push(json!({ "trap": msg }));
                if op["stop_on_trap"].as_bool().unwrap_or(false) {
                    break;
                }
            }
        }
    }
    json!(out)
}

fn main() {
    let args: Vec<String> = std::env::args().collect();
    let doc: Value = serde_json::from_str(&std::fs::read_to_string(&args[1]).expect("read scenario file")).expect("json");
    std::panic::set_hook(Box::new(|_| {}));
    let mut results = vec![];
    let scenarios = match doc["scenarios"].as_array() {
        Some(a) => a.clone(),
        None => {
            eprintln!("no native scenarios in this document (a verdict without a native route, see its native_replay field)");
            std::process::exit(2);
        }
    };
    for sc in scenarios.iter() {
        // every scenario runs on a fresh thread: the canister state lives in thread-locals
        let sc = sc.clone();
        let r = std::thread::Builder::new()
            .stack_size(256 << 20)
            .spawn(move || run_scenario(&sc))
            .unwrap()
            .join()
            .unwrap_or(json!("thread panicked"));
        results.push(r);
    }
    let out = json!({ "results": results });
    if args.len() > 2 {
        std::fs::write(&args[2], serde_json::to_string(&out).unwrap()).unwrap();
    } else {
        println!("{}", serde_json::to_string(&out).unwrap());
    }
}
