#!/usr/bin/env python3
"""C19 - send_transaction forwards exactly the well-formed transactions  (+ its cycles charge, C16; + its gate, C14).

Kernel (coroutine MIR of api::send_transaction::send_transaction, regenerated from /repo, driven through its poll
function): access flag, canister network, request network spelling, payload length, fee table, attached cycles, the
decoder's outcome and the block source's reply (immediately or after a suspension; Ok or reject) are symbolic /
enumerated:
   forwarded <=> counted <=> access enabled and same network and the payload decodes as exactly one transaction;
   the forwarded bytes are the request's; a refused call traps before any charge, count or forward;
   MalformedTransaction is returned (not a trap) for every other payload; accepted cycles = base + per_byte * len.
The decoder is a stub with the contract of the function the code calls: `Decodable::consensus_decode` may stop before
the end of the slice (trailing bytes possible), `consensus::deserialize` fails unless the whole slice is consumed.
"""
import os, sys, time, json
import z3
sys.path.insert(0, os.path.dirname(os.path.dirname(os.path.abspath(__file__))))
from checks import common as C
from checks.treelib import *   # noqa: F401,F403
from checks.c16 import Cycles, mk_fees
from checks.c14 import flag
from mirsym.models_std import LeafFuture, poll_once, MODELS

PROP = 'C19'
STUBS = ['print', 'perf_counter']
PROG = None


class Payload(VecV):
    """request.transaction: its length is symbolic, its content opaque (the decoder is a stub)"""
    __slots__ = ('symlen',)


def install_len(it):
    base = MODELS['Vec::len']

    def vlen(it_, k, r, a):
        v = deref(a[0])
        if isinstance(v, Payload):
            return v.symlen
        return base(it_, k, r, a)
    it.overrides['Vec::len'] = vlen
    it.overrides['Vec::as_slice'] = lambda it_, k, r, a: deref(a[0]) if isinstance(deref(a[0]), Payload) else MODELS['Vec::as_slice'](it_, k, r, a)


def scenario_factory(prog, rep, cands, seen):
    dnr = prog.src.find_adt(['ic_btc_interface', 'NetworkInRequest'])
    derr = prog.src.find_adt(['ic_btc_interface', 'SendTransactionError'])

    def scenario(it):
        btc.install(it, STUBS)
        install_len(it)
        access = it.choose(2, 'access') == 0
        net = it.choose(3, 'net')
        rv = it.choose(len(dnr.variants), 'reqnet')
        fees, fv = mk_fees(it, prog)
        cnt0 = it.fresh('count0', 'u64', 0, 1 << 40)
        dm = prog.src.find_adt(['metrics', 'Metrics'])
        mvals = dict(send_transaction_count=cnt0)
        metrics = Agg('Metrics', [Cell(mvals.get(f, Opaque(f))) for f in dm.fields])
        d = prog.src.find_adt(['GenericState'])
        utxos = H.mk_struct(prog, 'UtxoSet', utxos=Opaque('utxos'), network=btc.network(prog, net), address_utxos=Opaque('au'),
                            balances=Opaque('bal'), next_height=SInt(0, 'u32'), should_time_slice=Opaque('sts'), ingesting_block=none())
        vals = dict(utxos=utxos, api_access=flag(prog, access), fees=fees, metrics=metrics, blocks_source=Opaque('blocks_source'),
                    disable_api_if_not_fully_synced=flag(prog, True))
        state = Agg('GenericState', [Cell(vals.get(f, Opaque(f))) for f in d.fields])
        sref = Ref(Cell(state))
        it.overrides['with_state'] = lambda it_, k, r, a: it_.call_value(a[0], [sref])
        it.overrides['with_state_mut'] = lambda it_, k, r, a: it_.call_value(a[0], [sref])
        cyc = Cycles(it)
        payload = Payload()
        payload.symlen = it.fresh('len', 'usize', 0, 1 << 32)
        decode = {}

        def consensus_decode(it_, k, r, a):
            # Decodable::consensus_decode(&mut &[u8]): Ok(tx) possibly leaving bytes unread, or Err
            decode['fn'] = 'consensus_decode'
            o = it_.choose(3, 'decode')
            decode['outcome'] = ['ok_exact', 'ok_trailing', 'err'][o]
            if o == 2:
                return err(Opaque('encode::Error'))
            if o == 1:
                it_.assume(payload.symlen.t >= 1)
            return ok(Agg('Transaction', [Cell(Opaque('tx'))]))

        def deserialize(it_, k, r, a):
            # consensus::deserialize(&[u8]): Ok only if the whole slice is consumed
            decode['fn'] = 'deserialize'
            o = it_.choose(2, 'decode')
            decode['outcome'] = ['ok_exact', 'err'][o]
            return err(Opaque('encode::Error')) if o else ok(Agg('Transaction', [Cell(Opaque('tx'))]))
        it.overrides['<Transaction as Decodable>::consensus_decode'] = consensus_decode
        it.overrides['consensus::deserialize'] = it.overrides['deserialize'] = it.overrides['encode::deserialize'] = deserialize
        it.overrides['Transaction::compute_txid'] = lambda it_, k, r, a: Opaque('txid')
        forwarded = []
        reply = it.choose(3, 'reply')        # 0: Ok at once, 1: Ok after one suspension, 2: reject

        def call_internal(it_, k, r, a):
            forwarded.append((a[0], a[1]))
            val = (lambda it2: err(Opaque('call::Error'))) if reply == 2 else (lambda it2: ok(UNIT))
            return LeafFuture(val, pending=1 if reply == 1 else 0)
        it.overrides['call_send_transaction_internal'] = it.overrides['runtime::call_send_transaction_internal'] = call_internal
        dreq = prog.src.find_adt(['ic_btc_interface', 'SendTransactionRequest'])
        rvals = dict(network=Agg('NetworkInRequest', [], dnr.variants[rv][3]), transaction=payload)
        req = Agg(dreq.name, [Cell(rvals[f]) for f in dreq.fields])
        co = Cell(it.call('send_transaction::send_transaction', [req]))
        outcome = None
        result = None
        polls = 0
        try:
            while True:
                st_, val = poll_once(it, co)
                polls += 1
                if st_ == 'ready':
                    result = val
                    outcome = 'ok' if val.variant == 0 else 'err'
                    break
                if polls > 3:
                    raise Unsupported('send_transaction does not complete')
        except Panic as e:
            outcome = 'trap'
            trapmsg = str(e)
        same_net = dnr.variants[rv][0].lower() == btc.NETS[net].lower()
        gate = access and same_net
        cnt1 = metrics.fields[dm.fields.index('send_transaction_count')].v
        counted = check_unsat(it, rep, zterm(cnt1) != cnt0.t + 1) is None
        unchanged = check_unsat(it, rep, zterm(cnt1) != cnt0.t) is None
        info = dict(access_enabled=access, canister_net=btc.NETS[net], request_net=dnr.variants[rv][0], decoder=decode.get('fn'),
                    decode=decode.get('outcome'), reply=['ok', 'ok-after-suspension', 'reject'][reply], len=payload.symlen.t,
                    outcome=outcome, forwarded=len(forwarded))
        seen.add((outcome, decode.get('outcome'), bool(forwarded)))
        mdl = lambda: it.model_ if it.feasible() else None
        if not gate:
            # refused: trap, nothing charged / counted / forwarded, decoder not even reached
            if outcome != 'trap' or forwarded or not unchanged or decode or check_unsat(it, rep, cyc.total() != 0) is not None:
                cands.add(kernel='s', role='refusal-not-clean', model=mdl(), **info)
            return
        from mirsym.interp import sym_mul
        exp_fee = fv['send_transaction_base'] + sym_mul(fv['send_transaction_per_byte'], payload.symlen.t)
        if outcome == 'trap':
            # legitimate traps: not enough cycles attached; the block source rejected the call (expect)
            enough = check_unsat(it, rep, cyc.avail0 >= exp_fee) is not None
            if reply == 2 and forwarded:
                return
            if not forwarded and not decode:
                m = check_unsat(it, rep, cyc.avail0 >= exp_fee)
                if m is not None:
                    cands.add(kernel='s', role='traps-although-enough-cycles', model=m, **info)
                return
            cands.add(kernel='s', role='unexpected-trap', model=mdl(), msg=trapmsg, **info)
            return
        # answered: cycles = base + per_byte * len
        m = check_unsat(it, rep, cyc.total() != exp_fee)
        if m is not None:
            cands.add(kernel='s', role='charge-differs-from-formula', model=m, fees=dict(fv), avail=cyc.avail0, accepted=cyc.total(), **info)
            return
        wellformed = decode.get('outcome') == 'ok_exact'
        if outcome == 'err':
            name = [v[0] for v in derr.variants if v[3] == result.fields[0].v.variant][0]
            if name != 'MalformedTransaction' or forwarded or not unchanged:
                cands.add(kernel='s', role='error-path-has-effects', model=mdl(), error=name, **info)
            elif wellformed:
                cands.add(kernel='s', role='wellformed-transaction-refused', model=mdl(), **info)
            return
        # outcome ok
        if len(forwarded) != 1 or not counted:
            cands.add(kernel='s', role='success-without-exactly-one-forward-and-count', model=mdl(), **info)
            return
        dint = prog.src.find_adt(['types', 'SendTransactionInternalRequest'])
        sent = forwarded[0][1].fields[dint.fields.index('transaction')].v
        if sent is not payload:
            cands.add(kernel='s', role='forwarded-bytes-are-not-the-request-bytes', model=mdl(), **info)
            return
        if not wellformed:
            cands.add(kernel='s', role='forwards-payload-that-is-not-exactly-one-transaction', model=mdl(), **info)

    return scenario


def native_send(items):
    scen = [dict(ops=[dict(op='init', network='regtest', threshold=2), dict(op='send_tx', **i)]) for i in items]
    return [r[-1] for r in C.run_native(scen, tag='c19')]


def confirm(cand, known):
    doc = dict(property=PROP, role=cand['role'], summary={k: v for k, v in cand.items() if k not in ('shape',)}, problems=[])
    role = cand['role']
    if role == 'forwards-payload-that-is-not-exactly-one-transaction':
        # witness for the stub's freedom: a valid transaction followed by one extra byte
        res = native_send([dict(kind='valid_plus_trailing', trailing=1), dict(kind='valid'), dict(kind='garbage')])
        doc['native'] = res
        if res[0].get('result') == 'Ok' and res[0].get('count_delta') == 1:
            doc['problems'].append('a valid transaction followed by 1 trailing byte is accepted, counted and forwarded: %s' % res[0])
            for k in known:
                if k['id'] == 'C19-trailing-bytes-accepted':
                    return 'known:' + k['id'], doc
            return 'violation', doc
        return 'not-reproduced', doc
    if role == 'wellformed-transaction-refused':
        res = native_send([dict(kind='valid')])
        doc['native'] = res
        if res[0].get('result') != 'Ok':
            doc['problems'].append('a valid transaction is refused natively: %s' % res[0])
            return 'violation', doc
        return 'not-reproduced', doc
    if role in ('refusal-not-clean',):
        res = native_send([dict(kind='valid', access=cand.get('access_enabled', True), request_net=cand.get('request_net', 'regtest'))])
        doc['native'] = res
        same = cand.get('request_net', 'regtest').lower() == 'regtest'
        should = cand.get('access_enabled', True) and same
        if (res[0].get('result') == 'trap') == should or (not should and res[0].get('count_delta') != 0):
            doc['problems'].append('native gate differs: %s' % res[0])
            return 'violation', doc
        return 'not-reproduced', doc
    doc['problems'].append(role)
    return 'violation', doc


def translator_validation(rep):
    items = [dict(kind='valid'), dict(kind='garbage'), dict(kind='empty'), dict(kind='truncated'), dict(kind='valid', access=False),
             dict(kind='valid', request_net='mainnet'), dict(kind='valid', request_net='Regtest'), dict(kind='garbage', access=False)]
    exp = ['Ok', 'MalformedTransaction', 'MalformedTransaction', 'MalformedTransaction', 'trap', 'trap', 'Ok', 'trap']
    for i, e, got in zip(items, exp, native_send(items)):
        ok_ = got.get('result') == e and got.get('count_delta') == (1 if e == 'Ok' else 0)
        if ok_:
            rep.cov['traces_validated_against_impl'] += 1
        else:
            rep.inconclusive = 'native send_transaction %s -> %s, expected %s' % (i, got, e)


def main():
    global PROG
    tier = C.tier()
    rep = H.Report(PROP, tier)
    prog = PROG = H.load_program(['canister', 'interface'])
    btc.load_dep_decls(prog)
    rep.cov['mir'] = dict(prog.info)
    rep.cov['bounds'] = dict(payload_len='symbolic < 2^32', fees='symbolic u128 < 2^100', cycles='symbolic u128 < 2^120',
                             flags_networks='all combinations (2 x 3 x 6)', reply='Ok at once / Ok after one suspension / reject',
                             outside='the byte-level behaviour of the dependency decoder (stub with the documented contract of the function that is called)')
    rep.cov['functions_encoded'] = ['send_transaction::send_transaction (coroutine poll fn + closures)', 'verify_api_access', 'verify_network', 'charge_cycles',
                                    'verify_has_enough_cycles', '<Network as From<NetworkInRequest>>::from']
    rep.cov['stubs'] = btc.stub_docs(STUBS) + [
        'Transaction::consensus_decode(&mut &[u8]) -> Ok leaving 0 or more bytes unread / Err;  consensus::deserialize(&[u8]) -> Ok (all consumed) / Err',
        'call_send_transaction_internal -> recorder returning a leaf future (Ready or Pending once, Ok or reject)',
        'msg_cycles_available / msg_cycles_accept -> IC cycles API model', 'with_state / with_state_mut -> closure on the scenario state']
    rep.assumptions = ['a rejected inter-canister call makes the update trap (expect): the message is then rolled back by the IC']
    cands = Cands()
    st = Stats()
    seen = set()
    explore(prog, scenario_factory(prog, rep, cands, seen), stats=st)
    rep.add_stats(st, 's:send_transaction')
    need = [('ok', 'ok_exact', True), ('err', 'err', False), ('trap', None, False)]
    if all(n in seen for n in need):
        rep.cov['witnesses'] += 1
    else:
        rep.inconclusive = 'vacuity: outcomes %s' % sorted(map(str, seen))
    rep.sample(dict(outcomes=sorted(map(str, seen)), paths=st.paths))
    translator_validation(rep)
    settle(rep, PROP, cands, confirm, H.load_known(PROP), describe=lambda d: str(d.get('problems'))[:300])
    return rep.finish()


if __name__ == '__main__':
    C.run_check(main)
