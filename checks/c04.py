#!/usr/bin/env python3
"""C04 - min_confirmations cuts the view at the last sufficiently buried block  (and, shared, C05a/b: the balance cut).

Kernel: unstable_blocks::get_main_chain + get_utxos_from_chain(c) with `c` symbolic (u32, >= 1) on every
arrival-ordered tree up to N blocks with symbolic difficulties; the UTXO overlay is a recorder, so what is decided is
*which blocks are applied and which tip is named*:
   B = last best-chain block such that it and all its unstable ancestors have  depth >= c  and lead every competing
   block of the same height by >= c;   c > |best chain|  =>  MinConfirmationsTooLarge{given: c, max: |best chain|}.
"""
import os, sys, time, json
import z3
sys.path.insert(0, os.path.dirname(os.path.dirname(os.path.abspath(__file__))))
from checks import common as C
from checks.treelib import *   # noqa: F401,F403

PROP = 'C04'
STUBS = ['print', 'perf_counter', 'blockhash_to_vec', 'blockhash_from']
PROG = None


def margins(ts, path):
    """m_i for every best-chain block: the largest c it satisfies (depth and lead over every same-height competitor)"""
    out = []
    for b in path:
        comp = [o for o in range(1, ts.n + 1) if o != b and ts.height(o) == ts.height(b)]
        m = ts.depth(b)
        for o in comp:
            m = min(m, ts.depth(b) - ts.depth(o))
        out.append(m)
    return out


def install_ledger_stubs(it, applied, added):
    it.overrides['Address::from_str_checked'] = lambda it_, k, r, a: ok(Agg('Address', [Cell(Opaque('addr'))]))
    it.overrides['AddressUtxoSet::apply_block'] = lambda it_, k, r, a: (applied.append(btc.bh_id(a[1])), UNIT)[1]
    it.overrides['AddressUtxoSet::into_iter'] = lambda it_, k, r, a: ListIter([])
    it.overrides['UtxoSet::get_balance'] = lambda it_, k, r, a: it_.fresh('sbal', 'u64', 0, 1 << 50)
    it.overrides['GenericUnstableBlocks::get_added_outpoints'] = \
        lambda it_, k, r, a: (added.append(btc.bh_id(a[1])), empty_slice())[1]
    it.overrides['GenericUnstableBlocks::get_removed_outpoints'] = lambda it_, k, r, a: empty_slice()


def run_utxos(it, prog, state, c):
    ubref = Ref(sfield(prog, state, 'unstable_blocks'))
    chain = it.call('unstable_blocks::get_main_chain', [ubref])
    best = btc.chain_ids(chain)
    r = it.call('get_utxos_from_chain', [Ref(Cell(state)), StrV('addr'), c, chain, none(), SInt(1000, 'usize')])
    return best, r


def decode_utxos_result(prog, r):
    if r.variant == 0:
        resp = r.fields[0].v.fields[0].v
        dr = prog.src.find_adt(['ic_btc_interface', 'GetUtxosResponse'])
        return dict(ok=True, tip=resp.fields[dr.fields.index('tip_block_hash')].v.cells[0].v.t,
                    tip_height=resp.fields[dr.fields.index('tip_height')].v)
    e = r.fields[0].v
    de = prog.src.find_adt(['ic_btc_interface', 'GetUtxosError'])
    name = [v[0] for v in de.variants if v[3] == e.variant][0]
    return dict(ok=False, err=name, fields=[c.v for c in e.fields])


def worker(job):
    parents = job
    prog = PROG
    rep = H.Report(PROP, 'quick')
    cands = Cands()
    ts = btc.TreeScenario(parents)
    st = Stats()
    seen = set()

    def scenario(it):
        btc.install(it, STUBS)
        ts.assume_ranges(it)
        state, sh, thr = mk_state(it, prog, ts)
        applied, added = [], []
        install_ledger_stubs(it, applied, added)
        c = it.fresh('c', 'u32', 1, None)
        best, r = run_utxos(it, prog, state, c)
        out = decode_utxos_result(prog, r)
        mg = margins(ts, best)
        ln = len(best)
        if not out['ok']:
            seen.add('err')
            if out['err'] != 'MinConfirmationsTooLarge':
                cands.add(kernel='cut', role='unexpected-error-' + out['err'], ts=ts, model=it.model_ if it.feasible() else None, c=c.t)
                return
            given, mx = out['fields']
            m = check_unsat(it, rep, z3.Or(c.t <= ln, zterm(given) != c.t, zterm(mx) != ln))
            if m is not None:
                cands.add(kernel='cut', role='too-large-error-wrong', ts=ts, model=m, c=c.t, best=best)
            return
        k = len(applied) - 1
        seen.add(('cut', k == ln - 1))
        if applied != best[:k + 1] or (k >= 0 and out['tip'] != best[k]) or k < 0:
            cands.add(kernel='cut', role='applied-blocks-not-a-best-chain-prefix-or-tip-mismatch', ts=ts,
                      model=it.model_ if it.feasible() else None, c=c.t, best=best, applied=applied, tip=out['tip'])
            return
        # the cut is the oracle's B: all applied blocks qualify, the next one does not, and c <= len
        conds = [c.t > ln]
        conds += [c.t > mg[j] for j in range(k + 1)]
        if k + 1 < ln:
            conds.append(c.t <= mg[k + 1])
        conds.append(zterm(out['tip_height']) != sh.t + k)
        m = check_unsat(it, rep, z3.Or(*conds))
        if m is not None:
            cands.add(kernel='cut', role='cut-is-not-the-last-sufficiently-buried-block', ts=ts, model=m, c=c.t, best=best,
                      applied=applied, margins=mg)
            return
        # fork-free special case of the statement: tip at H - c + 1
        if len(ts.leaves) == 1:
            m = check_unsat(it, rep, zterm(out['tip_height']) != sh.t + (ln - 1) - c.t + 1)
            if m is not None:
                cands.add(kernel='cut', role='fork-free-tip-not-H-c+1', ts=ts, model=m, c=c.t, best=best)

    explore(prog, scenario, stats=st, on_panic=lambda it, e: cands.add(
        kernel='cut', role='trap', ts=ts, model=it.model_ if it.feasible() else None, msg=str(e), c=z3.Int('c')))
    if 'err' in seen and ('cut', True) in seen and (ts.n == 1 or ('cut', False) in seen):
        rep.cov['witnesses'] += 1
    rep.add_stats(st, 'cut:get_utxos_from_chain')
    rep.cov['shapes'] += 1
    if ts.n >= 4 and len(ts.leaves) >= 2 and sum(parents) % 5 == 0:
        rep.sample(dict(parents=parents, outcomes=sorted(map(str, seen))))
    return (rep.cov, cands.items, rep.inconclusive)


def oracle_cut(ts, diffs, c):
    best = ts.path(oracle_best_leaf(ts, diffs))
    mg = margins(ts, best)
    if c > len(best):
        return best, None
    k = -1
    for j in range(len(best)):
        if c <= mg[j]:
            k = j
        else:
            break
    return best, k


def confirm(cand, known):
    """native replay at stable height 0 and, if that shows nothing, below a stable prefix of 3 blocks (anchor height 3)"""
    doc = None
    for prefix in (0, 3):
        verdict, d = confirm_at(cand, prefix)
        doc = doc or d
        if verdict == 'violation':
            return verdict, d
    return 'not-reproduced', doc


def confirm_at(cand, prefix):
    ts = btc.TreeScenario(list(cand['shape'][1]))
    diffs = {int(k): v for k, v in cand['diffs'].items()}
    c = cand.get('c') if isinstance(cand.get('c'), int) else 1
    ops = native_ops(ts, diffs, stable_prefix=prefix, extra=[dict(op='main_chain'), dict(op='utxos', addr=7, min_conf=c)])
    res = C.run_native([dict(ops=ops)], tag='c04cx')[0]
    mc, ut = res[-2:]
    best, k = oracle_cut(ts, diffs, c)
    problems = []
    if k is None:
        if 'err' not in ut or 'MinConfirmationsTooLarge' not in ut['err'] or ('given: %d' % c) not in ut['err'] or ('max: %d' % len(best)) not in ut['err']:
            problems.append('expected MinConfirmationsTooLarge{given:%d,max:%d}' % (c, len(best)))
    else:
        exp = sorted(1000 + i for i in best[:k + 1])
        if ut.get('tip') != best[k] or ut.get('tip_height') != prefix + k or sorted(u['value'] for u in ut.get('utxos', [])) != exp:
            problems.append('expected tip %s at height %d with outputs of %s' % (best[k], prefix + k, best[:k + 1]))
    doc = dict(property=PROP, role=cand['role'], summary=dict(parents=ts.parents, difficulty=diffs, min_confirmations=c, stable_prefix=prefix),
               expected=dict(best_chain=best, cut_index=k), native=dict(main_chain=mc, utxos=ut), problems=problems,
               scenario=dict(ops=ops))
    if not problems:
        return 'not-reproduced', doc
    return 'violation', doc


def translator_validation(prog, rep, count):
    r = C.rng()
    scen, expect = [], []
    for _ in range(count):
        ts, diffs = random_tree(r, 2, 8)
        c = r.randint(0, 5)
        concretize_ts(ts, diffs)
        it = Interp(prog)
        btc.install(it, STUBS)
        state, sh, thr = mk_state(it, prog, ts, sh=SInt(0, 'u32'), thr=SInt(2, 'u32'))
        applied, added = [], []
        install_ledger_stubs(it, applied, added)
        best, rr = run_utxos(it, prog, state, SInt(c, 'u32'))
        out = decode_utxos_result(prog, rr)
        expect.append((out, applied, ts, diffs, c))
        scen.append(dict(ops=native_ops(ts, diffs, extra=[dict(op='utxos', addr=7, min_conf=c)])))
    res = C.run_native(scen, tag='c04tv')
    for (out, applied, ts, diffs, c), rr in zip(expect, res):
        ut = rr[-1]
        if out['ok']:
            good = ut.get('tip') == out['tip'] and ut.get('tip_height') == out['tip_height'].t and \
                sorted(u['value'] for u in ut.get('utxos', [])) == sorted(1000 + i for i in applied)
        else:
            good = 'err' in ut and out['err'] in ut['err']
        if good:
            rep.cov['traces_validated_against_impl'] += 1
        else:
            rep.inconclusive = 'translator-mismatch get_utxos parents=%s diffs=%s c=%s mir=%s/%s native=%s' % (
                ts.parents, diffs, c, out, applied, ut)


def main():
    global PROG
    tier = C.tier()
    rep = H.Report(PROP, tier)
    N = 6 if tier == 'quick' else 8
    prog = PROG = H.load_program(['canister'])
    btc.load_dep_decls(prog)
    rep.cov['bounds'] = dict(tree_blocks=N, difficulty='symbolic in [1, 2^100)', min_confirmations='symbolic u32 >= 1 (0 is the unfiltered case of C02)',
                             stable_height='symbolic u32 < 2^31', outside='trees beyond the bound; the content of the overlay (C01)')
    rep.cov['mir'] = prog.info
    rep.cov['functions_encoded'] = ['get_utxos_from_chain', 'get_stability_count', 'BlockTree::block_hashes_with_depths_by_heights(+_helper)',
                                    'unstable_blocks::get_main_chain', 'BlockTree::main_chain_by_difficulty(+_inner)', 'BlockChain::{len,first,into_chain}',
                                    'UtxoSet::next_height', 'GenericState::{network,get_utxos}', 'AddressUtxoSet::new']
    rep.cov['stubs'] = btc.stub_docs(STUBS) + ['Address::from_str_checked -> Ok(opaque)', 'AddressUtxoSet::apply_block -> recorder',
                                              'AddressUtxoSet::into_iter -> empty', 'block hash = injective id']
    rep.assumptions = ['std models faithful', '"buried under at least c blocks (themselves included) on their longest descendant chain" = subtree depth >= c',
                       '"at least c deeper than any competing block at the same height" = depth(b) - depth(b\') >= c']
    cands = Cands()
    jobs = list(shapes_upto(N, forks_only_above=5))
    for part in parallel(jobs, worker):
        merge_partial(rep, cands, part)
    translator_validation(prog, rep, 80 if tier == 'quick' else 300)
    settle(rep, PROP, cands, confirm, H.load_known(PROP), describe=lambda d: '%s %s' % (d.get('problems'), d.get('summary')))
    return rep.finish()


if __name__ == '__main__':
    C.run_check(main)
