#!/usr/bin/env python3
"""C02 - every endpoint serves the heaviest chain and agrees on its tip.

Kernels (all executed from the MIR regenerated from /repo), every arrival-ordered tree up to N blocks:
  a  BlockTree::main_chain_by_difficulty / main_chain_length_by_difficulty  vs. the oracle "greatest accumulated
     difficulty, ties: more blocks, then received first", difficulties symbolic
  b  state::blockchain_info, main_chain_height, get_utxos_from_chain (unfiltered), get_balance_private (unfiltered),
     unstable_blocks::get_main_chain_length: the tip / blocks they use are the oracle's best chain
"""
import os, sys, time, json
import z3
sys.path.insert(0, os.path.dirname(os.path.dirname(os.path.abspath(__file__))))
from checks import common as C
from checks.treelib import *   # noqa: F401,F403

PROP = 'C02'
STUBS_B = ['print', 'perf_counter', 'blockhash_to_vec', 'blockhash_from']
PROG = None


# ------------------------------------------------------------------------------------------- kernel a
def kernel_a_shape(prog, rep, cands, parents):
    st = Stats()
    ts = btc.TreeScenario(parents)
    tips_seen = set()

    def scenario(it):
        ts.assume_ranges(it)
        root = ts.build_tree(it, prog)
        chain = it.call('BlockTree::<Block>::main_chain_by_difficulty', [Ref(Cell(root))])
        ids = btc.chain_ids(chain)
        ln = it.call('BlockTree::<Block>::main_chain_length_by_difficulty', [Ref(Cell(root))])
        tip = ids[-1]
        tips_seen.add(tip)
        mdl = lambda: it.model_ if it.feasible() else None
        # structural facts are concrete on every path
        if ids != ts.path(tip) or tip not in ts.leaves:
            cands.add(kernel='a', role='not-a-root-to-leaf-path', got=ids, model=mdl(), ts=ts)
            return
        if not isinstance(ln.t, int) or ln.t != len(ids):
            cands.add(kernel='a', role='length-fn-disagrees', got=ids, length=str(ln.t), model=mdl(), ts=ts)
            return
        m = check_unsat(it, rep, z3.Not(ts.is_best(tip)))
        if m is not None:
            cands.add(kernel='a', role='not-the-best-branch', got=ids, model=m, ts=ts)

    explore(prog, scenario, stats=st, on_panic=lambda it, e: cands.add(
        kernel='a', role='trap', msg=str(e), ts=ts, model=it.model_ if it.feasible() else None))
    # reachability witness: every leaf is the answer for some difficulty assignment
    if tips_seen == set(ts.leaves):
        rep.cov['witnesses'] += 1
    else:
        cands.add(kernel='a', role='leaf-never-selected', got=sorted(tips_seen), ts=ts, model=None, vacuity=True)
    if ts.n >= 5 and sum(parents) % 7 == 0:
        rep.sample(dict(kernel='a', parents=parents, leaves=ts.leaves, paths_tips=sorted(tips_seen)))
    rep.add_stats(st, 'a:main_chain_by_difficulty')
    rep.cov['shapes'] += 1


# ------------------------------------------------------------------------------------------- kernel b
def kernel_b_shape(prog, rep, cands, parents):
    st = Stats()
    ts = btc.TreeScenario(parents)

    def scenario(it):
        btc.install(it, STUBS_B)
        ts.assume_ranges(it)
        state, sh, thr = mk_state(it, prog, ts)
        sref = Ref(Cell(state))
        applied, added = [], []
        it.overrides['Address::from_str_checked'] = lambda it_, k, r, a: ok(Agg('Address', [Cell(Opaque('addr'))]))
        it.overrides['AddressUtxoSet::apply_block'] = lambda it_, k, r, a: (applied.append(btc.bh_id(a[1])), UNIT)[1]
        it.overrides['AddressUtxoSet::into_iter'] = lambda it_, k, r, a: ListIter([])
        it.overrides['UtxoSet::utxos_len'] = lambda it_, k, r, a: it_.fresh('ulen', 'u64', 0, 1 << 40)
        it.overrides['UtxoSet::get_balance'] = lambda it_, k, r, a: it_.fresh('sbal', 'u64', 0, 1 << 50)
        it.overrides['GenericUnstableBlocks::get_added_outpoints'] = \
            lambda it_, k, r, a: (added.append(btc.bh_id(a[1])), empty_slice())[1]
        it.overrides['GenericUnstableBlocks::get_removed_outpoints'] = lambda it_, k, r, a: empty_slice()
        it.overrides['with_state'] = lambda it_, k, r, a: it_.call_value(a[0], [sref])
        it.overrides['with_state_mut'] = lambda it_, k, r, a: UNIT
        out = {}
        # --- get_blockchain_info
        info = it.call('state::blockchain_info', [sref])
        d = prog.src.find_adt(['BlockchainInfo'])
        g = lambda f: info.fields[d.fields.index(f)].v
        out['info_height'] = g('height')
        out['info_tip'] = g('block_hash').cells[0].v.t
        out['info_ts'] = g('timestamp')
        out['info_diff'] = g('difficulty')
        # --- unfiltered get_utxos
        ubref = Ref(sfield(prog, state, 'unstable_blocks'))
        chain = it.call('unstable_blocks::get_main_chain', [ubref])
        r = it.call('get_utxos_from_chain', [sref, StrV('addr'), SInt(0, 'u32'), chain, none(), SInt(1000, 'usize')])
        if r.variant != 0:
            raise Unsupported('unfiltered get_utxos_from_chain returned Err')
        resp = r.fields[0].v.fields[0].v
        dr = prog.src.find_adt(['ic_btc_interface', 'GetUtxosResponse'])
        out['utxos_tip'] = resp.fields[dr.fields.index('tip_block_hash')].v.cells[0].v.t
        out['utxos_tip_height'] = resp.fields[dr.fields.index('tip_height')].v
        out['utxos_applied'] = list(applied)
        # --- unfiltered get_balance
        req = H.mk_struct(prog, 'types::GetBalanceRequest', address=StrV('addr'), min_confirmations=none())
        rb = it.call('get_balance_private', [req])
        if rb.variant != 0:
            raise Unsupported('unfiltered get_balance_private returned Err')
        out['balance_blocks'] = list(added)
        out['hdr_len'] = it.call('unstable_blocks::get_main_chain_length', [ubref])
        check_b(it, rep, ts, out, sh, cands)

    explore(prog, scenario, stats=st, on_panic=lambda it, e: cands.add(
        kernel='b', role='trap', msg=str(e), ts=ts, model=it.model_ if it.feasible() else None))
    rep.add_stats(st, 'b:endpoints')


def check_b(it, rep, ts, out, sh, cands):
    tip = out['info_tip']
    if not isinstance(tip, int):
        raise Unsupported('symbolic tip id')
    mdl = lambda: it.model_ if it.feasible() else None
    if tip not in ts.d:
        cands.add(kernel='b', role='info-tip-unknown-block', model=mdl(), ts=ts, got=out_plain(out))
        return
    path = ts.path(tip)
    conds = [('info-tip-not-best', z3.Not(ts.is_best(tip))),
             ('info-height', zterm(out['info_height']) != sh.t + len(path) - 1),
             ('info-timestamp', zterm(out['info_ts']) != ts.t[tip]),
             ('info-difficulty', zterm(out['info_diff']) != ts.d[tip])]
    for role, c in conds:
        m = check_unsat(it, rep, c)
        if m is not None:
            cands.add(kernel='b', role=role, model=m, ts=ts, got=out_plain(out))
            return
    # unfiltered get_utxos: same tip, height of that tip, applied exactly the best chain in order
    if out['utxos_tip'] != tip or out['utxos_applied'] != path:
        cands.add(kernel='b', role='get_utxos-unfiltered-not-at-best-tip', model=mdl(), ts=ts, got=out_plain(out))
        return
    m = check_unsat(it, rep, zterm(out['utxos_tip_height']) != sh.t + len(path) - 1)
    if m is not None:
        cands.add(kernel='b', role='get_utxos-tip-height', model=m, ts=ts, got=out_plain(out))
        return
    if out['balance_blocks'] != path:
        cands.add(kernel='b', role='get_balance-unfiltered-not-best-chain', model=mdl(), ts=ts, got=out_plain(out))
        return
    if out['hdr_len'].t != len(path):
        cands.add(kernel='b', role='main-chain-length', model=mdl(), ts=ts, got=out_plain(out))


def out_plain(out):
    return {k: (str(v.t) if isinstance(v, SInt) else v) for k, v in out.items()}


def worker(job):
    kind, parents = job
    rep = H.Report(PROP, 'quick')
    cands = Cands()
    if kind == 'a':
        kernel_a_shape(PROG, rep, cands, parents)
    else:
        kernel_b_shape(PROG, rep, cands, parents)
    return (rep.cov, cands.items, rep.inconclusive)


# ------------------------------------------------------------------------------------------- native side
def translator_validation(prog, rep, count):
    """the same concrete trees through (1) the MIR interpreter and (2) the native canister code"""
    r = C.rng()
    scen, expect = [], []
    for k in range(count):
        ts, diffs = random_tree(r, 2, 8)
        concretize_ts(ts, diffs)
        it = Interp(prog)
        root = ts.build_tree(it, prog)
        chain = it.call('BlockTree::<Block>::main_chain_by_difficulty', [Ref(Cell(root))])
        ids = btc.chain_ids(chain)
        expect.append((ids, ts.parents, diffs))
        scen.append(dict(ops=native_ops(ts, diffs, extra=[dict(op='main_chain')])))
    res = C.run_native(scen, tag='c02tv')
    for (ids, parents, diffs), rr in zip(expect, res):
        nat = rr[-1].get('chain') if isinstance(rr[-1], dict) else None
        if nat != ids:
            rep.inconclusive = 'translator-mismatch main_chain parents=%s diffs=%s mir=%s native=%s' % (parents, diffs, ids, nat)
        else:
            rep.cov['traces_validated_against_impl'] += 1


def confirm(cand, known):
    """replay a candidate natively; returns 'violation' / 'known:<id>' / 'not-reproduced'.
    The scenario runs twice: with the scenario's anchor as genesis (stable height 0) and below a stable prefix of 3 blocks
    (anchor height 3), so that a defect that needs blocks below the anchor is confirmed rather than left inconclusive."""
    doc = None
    for prefix in (0, 3):
        verdict, d = confirm_at(cand, prefix)
        doc = doc or d
        if verdict == 'violation':
            return verdict, d
    return 'not-reproduced', doc


def confirm_at(cand, prefix):
    ts = btc.TreeScenario(list(cand['shape'][1]))
    diffs = {int(k): v for k, v in cand['diffs'].items()}
    ops = native_ops(ts, diffs, stable_prefix=prefix,
                     extra=[dict(op='info'), dict(op='main_chain'), dict(op='utxos', addr=7),
                            dict(op='balance', addr=7), dict(op='headers', start=prefix)])
    best = oracle_best_leaf(ts, diffs)
    path = ts.path(best)
    tip_h = prefix + len(path) - 1
    res = C.run_native([dict(ops=ops)], tag='c02cx')[0]
    info, mc, ut, bal, hd = res[-5:]
    problems = []
    if info.get('tip') != best or info.get('height') != tip_h:
        problems.append('get_blockchain_info says tip %s height %s' % (info.get('tip'), info.get('height')))
    if mc.get('chain') != path or mc.get('len') != len(path):
        problems.append('main chain %s (length fn %s)' % (mc.get('chain'), mc.get('len')))
    if ut.get('tip') != best or ut.get('tip_height') != tip_h:
        problems.append('get_utxos tip %s height %s' % (ut.get('tip'), ut.get('tip_height')))
    exp_utxos = sorted(1000 + i for i in path)
    if sorted(u['value'] for u in ut.get('utxos', [])) != exp_utxos:
        problems.append('get_utxos set')
    if sorted((u['value'], u['height']) for u in ut.get('utxos', [])) != sorted((1000 + i, prefix + j) for j, i in enumerate(path)):
        problems.append('get_utxos heights')
    if bal.get('balance') != sum(exp_utxos):
        problems.append('get_balance %s' % bal)
    if hd.get('headers') != path or hd.get('tip_height') != tip_h:
        problems.append('get_block_headers %s' % hd)
    doc = dict(property=PROP, role=cand['role'], summary=dict(parents=ts.parents, difficulty=diffs, stable_prefix=prefix),
               expected_best_chain=path,
               native=dict(info=info, main_chain=mc, utxos=ut, balance=bal, headers=hd), problems=problems,
               scenario=dict(ops=ops))
    if not problems:
        return 'not-reproduced', doc
    return 'violation', doc


def main():
    global PROG
    tier = C.tier()
    rep = H.Report(PROP, tier)
    N = 6 if tier == 'quick' else 7
    NB = 6 if tier == 'quick' else 7
    prog = PROG = H.load_program(['canister'])
    btc.load_dep_decls(prog)
    rep.cov['bounds'] = dict(tree_blocks_kernel_a=N, tree_blocks_kernel_b='%d (fork-free shapes only up to 4)' % NB, difficulty='symbolic in [1, 2^100)',
                             stable_height='symbolic u32 < 2^31', timestamps='symbolic u32',
                             outside='trees larger than the bound; u128 overflow of accumulated difficulty; the fee-percentile block selection (C15)')
    rep.cov['mir'] = prog.info
    rep.cov['functions_encoded'] = ['BlockTree::main_chain_by_difficulty(+_inner)', 'BlockTree::main_chain_length_by_difficulty(+_inner)',
                                    'BlockChain::{new_with_successors,tip,into_chain,len,first}', 'DifficultyBasedDepth::{new,add}',
                                    'state::blockchain_info', 'state::main_chain_height', 'unstable_blocks::get_main_chain(+_length)',
                                    'get_utxos_from_chain', 'get_stability_count', 'BlockTree::block_hashes_with_depths_by_heights(+_helper)',
                                    'get_balance_private (+closures)', 'CachedBlock as ChainBlock']
    rep.cov['stubs'] = btc.stub_docs(STUBS_B) + [
        'Address::from_str_checked -> Ok(opaque address)', 'AddressUtxoSet::apply_block / into_iter -> recorder / empty',
        'UtxoSet::utxos_len, UtxoSet::get_balance -> fresh symbolic', 'get_added/removed_outpoints -> recorder / empty',
        'with_state(f) -> f(&state) on the scenario state', 'block hash = injective block id']
    rep.assumptions = ['tie-break "received first" read as: the child that arrived first where the branches diverge (the reading the code documents)',
                       'std Vec/slice/iterator/Option models (mirsym/models_std.py) are faithful',
                       'MIR is of the host-target dev build of the canister crate; overflow checks on (dev semantics)']
    cands = Cands()
    jobs = [('a', p) for p in shapes_upto(N)] + [('b', p) for p in shapes_upto(NB, forks_only_above=4)]
    jobs.sort(key=lambda j: -len(j[1]))
    for part in parallel(jobs, worker):
        merge_partial(rep, cands, part)
    rep.cov['jobs'] = len(jobs)
    translator_validation(prog, rep, 60 if tier == 'quick' else 300)
    settle(rep, PROP, cands, confirm, H.load_known(PROP), describe=lambda d: '%s %s' % (d.get('problems'), d.get('summary')))
    return rep.finish()


if __name__ == '__main__':
    C.run_check(main)
