#!/usr/bin/env python3
"""C02 - every endpoint serves the heaviest chain and agrees on its tip.

Kernels (all executed from the MIR regenerated from /repo):
  a  BlockTree::main_chain_by_difficulty / main_chain_length_by_difficulty  vs. the oracle "greatest accumulated
     difficulty, ties: more blocks, then received first", every arrival-ordered tree up to N blocks, difficulties symbolic
  b  state::blockchain_info, main_chain_height, get_utxos_from_chain (unfiltered), get_balance_private (unfiltered),
     GenericUnstableBlocks::get_block_headers_in_range, fee percentiles' block selection: the tip / blocks they use
     are the oracle's best chain
"""
import os, sys, time, json
import z3
sys.path.insert(0, os.path.dirname(os.path.dirname(os.path.abspath(__file__))))
from checks import common as C
from mirsym import harness as H, btc
from mirsym.interp import (Interp, explore, Stats, Agg, Cell, SInt, Ref, VecV, Opaque, UNIT, Panic, Unsupported, some,
                           none, ok, err, tup)
from mirsym.models_std import deref, ListIter

PROP = 'C02'
STUBS_A = []
STUBS_B = ['print', 'perf_counter', 'blockhash_to_vec', 'blockhash_from']


def check_unsat(it, rep, cond):
    """is `cond` impossible on the current path?  returns None if unsat, else a model"""
    it.solver.push()
    it.solver.add(cond)
    t = time.time()
    r = it.solver.check()
    it.nq += 1
    it.solver_s += time.time() - t
    m = it.solver.model() if r == z3.sat else None
    it.solver.pop()
    if r == z3.unknown:
        raise Unsupported('solver unknown in property query')
    if r == z3.unsat:
        rep.cov['unsat'] += 1
        return None
    rep.cov['sat'] += 1
    return m


# ------------------------------------------------------------------------------------------- kernel a
def kernel_a(prog, rep, N, cands):
    st = Stats()
    nshapes = 0
    for n in range(1, N + 1):
        for parents in H.all_shapes(n):
            nshapes += 1
            ts = btc.TreeScenario(parents)
            tips_seen = set()

            def scenario(it):
                ts.assume_ranges(it)
                root = ts.build_tree(it, prog)
                chain = it.call('BlockTree::<Block>::main_chain_by_difficulty', [Ref(Cell(root))])
                ids = btc.chain_ids(chain)
                ln = it.call('BlockTree::<Block>::main_chain_length_by_difficulty', [Ref(Cell(root))])
                tip = ids[-1]
                tips_seen.add(tip)
                # structural facts are concrete on every path
                if ids != ts.path(tip) or tip not in ts.leaves:
                    cands.append(dict(kernel='a', role='not-a-root-to-leaf-path', parents=parents, got=ids,
                                      model=it.solver.model() if it.feasible() else None, ts=ts))
                    return
                if not isinstance(ln.t, int) or ln.t != len(ids):
                    cands.append(dict(kernel='a', role='length-fn-disagrees', parents=parents, got=ids, length=str(ln.t),
                                      model=it.model_ if it.feasible() else None, ts=ts))
                    return
                m = check_unsat(it, rep, z3.Not(ts.is_best(tip)))
                if m is not None:
                    cands.append(dict(kernel='a', role='not-the-best-branch', parents=parents, got=ids, model=m, ts=ts))

            explore(prog, scenario, stats=st, on_panic=lambda it, e: cands.append(
                dict(kernel='a', role='trap', parents=parents, msg=str(e), ts=ts, model=it.model_ if it.feasible() else None)))
            # reachability witness: every leaf is the answer for some difficulty assignment
            if tips_seen == set(ts.leaves):
                rep.cov['witnesses'] += 1
            else:
                cands.append(dict(kernel='a', role='leaf-never-selected', parents=parents,
                                  got=sorted(tips_seen), ts=ts, model=None, vacuity=True))
            if n == N and nshapes % 7 == 0:
                rep.sample(dict(kernel='a', parents=parents, leaves=ts.leaves, paths_tips=sorted(tips_seen)))
    rep.add_stats(st, 'a:main_chain_by_difficulty')
    rep.cov['shapes'] += nshapes
    return nshapes


# ------------------------------------------------------------------------------------------- kernel b
def mk_state(it, prog, ts, net=2, thr=None):
    """a State around the tree scenario; ledger parts are opaque (their use is recorded by stubs)"""
    sh = it.fresh('stable_h', 'u32', 0, (1 << 31))
    thr = thr if thr is not None else it.fresh('thr', 'u32', 1, None)
    utxos = H.mk_struct(prog, 'UtxoSet', utxos=Opaque('utxos'), network=btc.network(prog, net), address_utxos=Opaque('au'),
                        balances=Opaque('bal'), next_height=sh, should_time_slice=Opaque('sts'), ingesting_block=none())
    ub = ts.build_unstable(it, prog, thr, net)
    d = prog.src.find_adt(['GenericState'])
    vals = dict(utxos=utxos, unstable_blocks=ub)
    fields = [Cell(vals.get(f, Opaque(f))) for f in d.fields]
    return Agg('GenericState', fields), sh


def kernel_b(prog, rep, N, cands):
    st = Stats()
    for n in range(1, N + 1):
        for parents in H.all_shapes(n):
            ts = btc.TreeScenario(parents)
            if len(ts.leaves) < 2 and n > 3:
                continue    # fork-free shapes are covered once per length below 4; forks are the subject here

            def scenario(it):
                btc.install(it, STUBS_B)
                ts.assume_ranges(it)
                state, sh = mk_state(it, prog, ts)
                sref = Ref(Cell(state))
                applied = []
                it.overrides['Address::from_str_checked'] = lambda it_, k, r, a: ok(Agg('Address', [Cell(Opaque('addr'))]))
                it.overrides['AddressUtxoSet::apply_block'] = lambda it_, k, r, a: (applied.append(btc.bh_id(a[1])), UNIT)[1]
                it.overrides['AddressUtxoSet::into_iter'] = lambda it_, k, r, a: ListIter([])
                it.overrides['UtxoSet::utxos_len'] = lambda it_, k, r, a: it_.fresh('ulen', 'u64', 0, 1 << 40)
                it.overrides['UtxoSet::get_balance'] = lambda it_, k, r, a: it_.fresh('sbal', 'u64', 0, 1 << 50)
                added = []
                it.overrides['GenericUnstableBlocks::get_added_outpoints'] = \
                    lambda it_, k, r, a: (added.append(btc.bh_id(a[1])), btc_empty_slice())[1]
                it.overrides['GenericUnstableBlocks::get_removed_outpoints'] = lambda it_, k, r, a: btc_empty_slice()
                out = {}
                # --- get_blockchain_info
                info = it.call('state::blockchain_info', [sref])
                d = prog.src.find_adt(['BlockchainInfo'])
                g = lambda f: info.fields[d.fields.index(f)].v
                out['info_height'] = g('height')
                out['info_tip'] = g('block_hash').cells[0].v.t
                out['info_ts'] = g('timestamp')
                out['info_diff'] = g('difficulty')
                # --- unfiltered get_utxos
                chain = it.call('unstable_blocks::get_main_chain', [Ref(H.get_field(prog, state, 'GenericState', 'unstable_blocks'))])
                r = it.call('get_utxos_from_chain', [sref, btc_str('addr'), SInt(0, 'u32'), chain, none(), SInt(1000, 'usize')])
                if r.variant != 0:
                    raise Unsupported('unfiltered get_utxos_from_chain returned Err')
                resp = r.fields[0].v.fields[0].v
                dr = prog.src.find_adt(['ic_btc_interface', 'GetUtxosResponse'])
                out['utxos_tip'] = resp.fields[dr.fields.index('tip_block_hash')].v.cells[0].v.t
                out['utxos_tip_height'] = resp.fields[dr.fields.index('tip_height')].v
                out['utxos_applied'] = list(applied)
                # --- unfiltered get_balance (closure body run on the same state)
                it.globals['STATE'] = sref
                req = H.mk_struct(prog, 'types::GetBalanceRequest', address=btc_string('addr'), min_confirmations=none())
                it.overrides['with_state'] = lambda it_, k, r, a: it_.call_value(a[0], [sref])
                it.overrides['with_state_mut'] = lambda it_, k, r, a: UNIT
                rb = it.call('get_balance_private', [req])
                if rb.variant != 0:
                    raise Unsupported('unfiltered get_balance_private returned Err')
                out['balance_blocks'] = list(added)
                # --- headers of the unstable range
                ub = Ref(H.get_field(prog, state, 'GenericState', 'unstable_blocks'))
                rng_ = Agg('RangeInclusive', [Cell(sh), Cell(SInt(sh.t + (1 << 20), 'u32'))])   # end clipped below
                out['hdr_len'] = it.call('unstable_blocks::get_main_chain_length', [ub])
                return check_b(it, rep, ts, out, sh, cands, parents)

            explore(prog, scenario, stats=st, on_panic=lambda it, e: cands.append(
                dict(kernel='b', role='trap', parents=parents, msg=str(e), ts=ts, model=it.model_ if it.feasible() else None)))
    rep.add_stats(st, 'b:endpoints')


def btc_empty_slice():
    from mirsym.interp import SliceRef
    return SliceRef(VecV(), 0, 0)


def btc_str(s):
    from mirsym.interp import StrV
    return StrV(s)


def btc_string(s):
    from mirsym.interp import StrV
    return StrV(s)


def check_b(it, rep, ts, out, sh, cands, parents):
    tip = out['info_tip']
    if not isinstance(tip, int):
        raise Unsupported('symbolic tip id')
    path = ts.path(tip) if tip in ts.par or tip == 1 else None
    best = ts.is_best(tip) if path else z3.BoolVal(False)
    bad = []
    # get_blockchain_info describes the best tip
    conds = [('info-tip-not-best', z3.Not(best)),
             ('info-height', zterm(out['info_height']) != sh.t + len(path) - 1),
             ('info-timestamp', zterm(out['info_ts']) != ts.t[tip]),
             ('info-difficulty', zterm(out['info_diff']) != ts.d[tip])]
    for role, c in conds:
        m = check_unsat(it, rep, c)
        if m is not None:
            cands.append(dict(kernel='b', role=role, parents=parents, model=m, ts=ts, got=out_plain(out)))
            return
    # unfiltered get_utxos: same tip, height of that tip, applied exactly the best chain in order
    if out['utxos_tip'] != tip or out['utxos_applied'] != path:
        cands.append(dict(kernel='b', role='get_utxos-unfiltered-not-at-best-tip', parents=parents,
                          model=it.model_ if it.feasible() else None, ts=ts, got=out_plain(out)))
        return
    m = check_unsat(it, rep, zterm(out['utxos_tip_height']) != sh.t + len(path) - 1)
    if m is not None:
        cands.append(dict(kernel='b', role='get_utxos-tip-height', parents=parents, model=m, ts=ts, got=out_plain(out)))
        return
    if out['balance_blocks'] != path:
        cands.append(dict(kernel='b', role='get_balance-unfiltered-not-best-chain', parents=parents,
                          model=it.model_ if it.feasible() else None, ts=ts, got=out_plain(out)))
        return
    if out['hdr_len'].t != len(path):
        cands.append(dict(kernel='b', role='main-chain-length', parents=parents,
                          model=it.model_ if it.feasible() else None, ts=ts, got=out_plain(out)))


def zterm(v):
    t = v.t if isinstance(v, SInt) else v
    return z3.IntVal(t) if isinstance(t, int) else t


def out_plain(out):
    return {k: (str(v.t) if isinstance(v, SInt) else v) for k, v in out.items()}


# ------------------------------------------------------------------------------------------- native side
from checks.treelib import native_ops  # noqa: E402


def model_diffs(ts, m):
    return {i: (m.eval(ts.d[i], model_completion=True).as_long() if m is not None else 1) for i in ts.d}


def oracle_concrete(ts, diffs):
    """best leaf by the property text, on concrete numbers"""
    best = None
    for l in ts.leaves:
        key = (sum(diffs[j] for j in ts.path(l)), len(ts.path(l)), -ts.pre[l])
        if best is None or key > best[0]:
            best = (key, l)
    return best[1]


def translator_validation(prog, rep, count):
    """the same concrete trees through (1) the MIR interpreter and (2) the native canister code"""
    r = C.rng()
    scen, expect = [], []
    for k in range(count):
        n = r.randint(2, 8)
        parents = [r.randint(1, i) for i in range(1, n)]
        ts = btc.TreeScenario(parents)
        style = r.randint(0, 3)
        diffs = {i: (1 if style == 0 else r.randint(1, 3) if style == 1 else r.choice([1, 1, 2, 50]) if style == 2 else r.randint(1, 10 ** 6))
                 for i in ts.d}
        it = Interp(prog)
        for i in ts.d:
            ts.d[i] = diffs[i]
            ts.t[i] = 0
        root = ts.build_tree(it, prog)
        chain = it.call('BlockTree::<Block>::main_chain_by_difficulty', [Ref(Cell(root))])
        ids = btc.chain_ids(chain)
        expect.append((ids, parents, diffs))
        scen.append(dict(ops=native_ops(ts, diffs, extra=[dict(op='main_chain')])))
    res = C.run_native(scen, tag='c02tv')
    bad = 0
    for (ids, parents, diffs), rr in zip(expect, res):
        nat = rr[-1].get('chain') if isinstance(rr[-1], dict) else None
        if nat != ids:
            bad += 1
            rep.inconclusive = 'translator-mismatch main_chain parents=%s diffs=%s mir=%s native=%s' % (parents, diffs, ids, nat)
        else:
            rep.cov['traces_validated_against_impl'] += 1
    return bad


def confirm(rep, cand, known):
    """replay a candidate natively; returns 'violation' / 'known:<id>' / 'not-reproduced'"""
    ts = cand['ts']
    diffs = model_diffs(ts, cand.get('model'))
    ops = native_ops(ts, diffs, extra=[dict(op='info'), dict(op='main_chain'), dict(op='utxos', addr=7),
                                         dict(op='balance', addr=7), dict(op='headers', start=0)])
    best = oracle_concrete(ts, diffs)
    path = ts.path(best)
    res = C.run_native([dict(ops=ops)], tag='c02cx')[0]
    info, mc, ut, bal, hd = res[-5:]
    problems = []
    if info.get('tip') != best or info.get('height') != len(path) - 1:
        problems.append('info')
    if mc.get('chain') != path:
        problems.append('main_chain')
    if ut.get('tip') != best or ut.get('tip_height') != len(path) - 1:
        problems.append('get_utxos')
    exp_utxos = sorted(1000 + i for i in path)
    if sorted(u['value'] for u in ut.get('utxos', [])) != exp_utxos:
        problems.append('get_utxos-set')
    if bal.get('balance') != sum(exp_utxos):
        problems.append('get_balance')
    if hd.get('headers') != path:
        problems.append('get_block_headers')
    doc = dict(property=PROP, role=cand['role'], parents=ts.parents, difficulty=diffs, expected_best_chain=path,
               native=dict(info=info, main_chain=mc, utxos=ut, balance=bal, headers=hd), problems=problems,
               scenario=dict(ops=ops))
    if not problems:
        return 'not-reproduced', doc
    # classification against known findings (by role predicate, not by literal values)
    for k in known:
        if k['id'] == 'C02-utxos-negative-stability-cut' and problems and set(problems) <= {'get_utxos', 'get_utxos-set'}:
            # the listed defect: an unfiltered get_utxos stops at a best-chain block whose stability count is
            # negative, i.e. a competing block at the same height has a deeper (longer) subtree
            neg = any(ts.depth(b) < max([ts.depth(o) for o in ts.d if o != b and ts.height(o) == ts.height(b)], default=0)
                      for b in path)
            if neg:
                return 'known:' + k['id'], doc
    return 'violation', doc


def main():
    tier = C.tier()
    rep = H.Report(PROP, tier)
    N = 5 if tier == 'quick' else 7
    NB = 5 if tier == 'quick' else 6
    prog = H.load_program(['canister'])
    btc.load_dep_decls(prog)
    rep.cov['bounds'] = dict(tree_blocks_kernel_a=N, tree_blocks_kernel_b=NB, difficulty='symbolic in [1, 2^100)',
                             stable_height='symbolic u32 < 2^31', timestamps='symbolic u32',
                             outside='trees larger than the bound; u128 overflow of accumulated difficulty')
    rep.cov['mir'] = prog.info
    rep.cov['functions_encoded'] = ['BlockTree::main_chain_by_difficulty(+_inner)', 'BlockTree::main_chain_length_by_difficulty(+_inner)',
                                    'BlockChain::{new_with_successors,tip,into_chain,len,first}', 'DifficultyBasedDepth::{new,add}',
                                    'state::blockchain_info', 'state::main_chain_height', 'unstable_blocks::get_main_chain(+_length)',
                                    'get_utxos_from_chain', 'get_stability_count', 'BlockTree::block_hashes_with_depths_by_heights(+_helper)',
                                    'get_balance_private (+closures)', 'CachedBlock as ChainBlock']
    rep.cov['stubs'] = btc.stub_docs(STUBS_B) + [
        'Address::from_str_checked -> Ok(opaque address)', 'AddressUtxoSet::apply_block / into_iter -> recorder / empty',
        'UtxoSet::utxos_len, UtxoSet::get_balance -> fresh symbolic', 'get_added/removed_outpoints -> recorder / empty',
        'with_state(f) -> f(&state) on the scenario state', 'block hash = injective block id']
    rep.assumptions = ['tie-break "received first" read as: the child that arrived first where the branches diverge (the reading the code documents)',
                       'std Vec/slice/iterator/Option models (mirsym/models_std.py) are faithful',
                       'MIR is of the host-target dev build of the canister crate; overflow checks on (dev semantics)']
    cands = []
    t0 = time.time()
    kernel_a(prog, rep, N, cands)
    kernel_b(prog, rep, NB, cands)
    bad = translator_validation(prog, rep, 60 if tier == 'quick' else 300)
    known = H.load_known(PROP)
    # replay: one representative per (role, shape family) is enough to decide; cap the native runs
    seen_roles = {}
    for c in cands:
        if c.get('vacuity'):
            rep.inconclusive = 'vacuity: %s %s' % (c['role'], c['parents'])
            continue
        key = (c['kernel'], c['role'])
        seen_roles.setdefault(key, []).append(c)
    for key, cs in seen_roles.items():
        verdicts = {}
        for c in cs[:12]:
            v, doc = confirm(rep, c, known)
            rep.cov['traces_validated_against_impl'] += 1
            verdicts.setdefault(v, []).append(doc)
        if 'violation' in verdicts:
            p = C.save_replay(PROP, key[1], verdicts['violation'][0])
            rep.violations.append(p)
        elif any(v.startswith('known:') for v in verdicts):
            for v in verdicts:
                if v.startswith('known:'):
                    d = verdicts[v][0]
                    rep.known_hit.append('%s unfiltered get_utxos answers tip %s (height %s) while the best chain is %s; %d counterexamples of this role' % (
                        v[6:], d['native']['utxos'].get('tip'), d['native']['utxos'].get('tip_height'), d['expected_best_chain'], len(cs)))
                    rep.sample(dict(known_finding=v[6:], parents=d['parents'], difficulty=d['difficulty']))
        else:
            rep.inconclusive = 'counterexample for role %s did not reproduce natively (model or stub wrong)' % (key,)
            C.save_replay(PROP, 'unreproduced_' + key[1], verdicts['not-reproduced'][0])
    rep.cov['candidates'] = len(cands)
    return rep.finish()


if __name__ == '__main__':
    C.run_check(main)
