#!/usr/bin/env python3
"""C05 - balance equals the sum of the UTXOs reported for the same request.

Kernels (MIR regenerated from /repo), every arrival-ordered tree up to N blocks, difficulties and `c` symbolic:
  a  cut agreement: the unstable blocks whose address deltas get_balance_private(c) adds are exactly the blocks
     get_utxos_from_chain(c) applies (the overlay and the delta lookups are recorders)
  b  error agreement: every outcome of the address parser and every too-large c is mapped to corresponding errors
     with equal given/max by both endpoints
  d  query variants: get_balance_query / get_utxos_query reach the same computation as the update variants
  c  value agreement: on transaction-carrying histories the unfiltered balance equals the sum of the reported UTXO values
     (real ledger code on the model of mirsym/ledger.py)
"""
import os, sys, time, json
import z3
sys.path.insert(0, os.path.dirname(os.path.dirname(os.path.abspath(__file__))))
from checks import common as C
from checks.treelib import *   # noqa: F401,F403
from checks import c04

PROP = 'C05'
STUBS = c04.STUBS
PROG = None


def decode_balance_result(prog, r):
    if r.variant == 0:
        return dict(ok=True, value=r.fields[0].v)
    e = r.fields[0].v
    de = prog.src.find_adt(['ic_btc_interface', 'GetBalanceError'])
    name = [v[0] for v in de.variants if v[3] == e.variant][0]
    return dict(ok=False, err=name, fields=[c.v for c in e.fields])


def install_state(it, prog, state):
    sref = Ref(Cell(state))
    it.overrides['with_state'] = lambda it_, k, r, a: it_.call_value(a[0], [sref])
    it.overrides['with_state_mut'] = lambda it_, k, r, a: UNIT
    return sref


def addr_stub(it, prog, net):
    """Address::from_str_checked: nondeterministic outcome (the text codec of the dependency is trusted)"""
    def f(it_, k, r, a):
        ch = it_.globals.get('addr_outcome')
        if ch is None:
            ch = it_.globals['addr_outcome'] = it_.choose(3, 'addr')
        if ch == 0:
            return ok(Agg('Address', [Cell(Opaque('addr'))]))
        if ch == 1:
            return err(H.mk_variant(prog, 'AddressParseError', 'MalformedAddress'))
        return err(H.mk_variant(prog, 'AddressParseError', 'WrongNetwork', expected=btc.network(prog, net)))
    it.overrides['Address::from_str_checked'] = f


def worker(job):
    parents = job
    prog = PROG
    rep = H.Report(PROP, 'quick')
    cands = Cands()
    ts = btc.TreeScenario(parents)
    st = Stats()
    seen = set()

    def scenario(it):
        btc.install(it, STUBS)
        ts.assume_ranges(it)
        net = 2
        state, sh, thr = mk_state(it, prog, ts, net=net)
        applied, added = [], []
        c04.install_ledger_stubs(it, applied, added)
        addr_stub(it, prog, net)
        install_state(it, prog, state)
        has_c = it.choose(2, 'filter')
        c = it.fresh('c', 'u32', 0, None) if has_c else SInt(0, 'u32')
        best, r = c04.run_utxos(it, prog, state, c)
        uo = c04.decode_utxos_result(prog, r)
        req = H.mk_struct(prog, 'types::GetBalanceRequest', address=StrV('addr'), min_confirmations=some(c) if has_c else none())
        rb = it.call('get_balance_private', [req])
        bo = decode_balance_result(prog, rb)
        mdl = lambda: it.model_ if it.feasible() else None
        if uo['ok'] != bo['ok']:
            cands.add(kernel='b', role='one-endpoint-errs-the-other-answers', stable_height=sh.t, ts=ts, model=mdl(), c=c.t, utxos=str(uo), balance=str(bo),
                      addr_outcome=it.globals.get('addr_outcome'))
            return
        if not uo['ok']:
            seen.add(uo['err'])
            pairs = {'MalformedAddress': 'MalformedAddress', 'AddressForWrongNetwork': 'AddressForWrongNetwork',
                     'MinConfirmationsTooLarge': 'MinConfirmationsTooLarge'}
            if pairs.get(uo['err']) != bo['err']:
                cands.add(kernel='b', role='different-errors', stable_height=sh.t, ts=ts, model=mdl(), c=c.t, utxos=uo['err'], balance=bo['err'])
                return
            if uo['err'] == 'MinConfirmationsTooLarge':
                m = check_unsat(it, rep, z3.Or(zterm(uo['fields'][0]) != zterm(bo['fields'][0]), zterm(uo['fields'][1]) != zterm(bo['fields'][1])))
                if m is not None:
                    cands.add(kernel='b', role='too-large-error-fields-differ', stable_height=sh.t, ts=ts, model=m, c=c.t)
            elif uo['err'] == 'AddressForWrongNetwork':
                if uo['fields'][0].variant != bo['fields'][0].variant:
                    cands.add(kernel='b', role='wrong-network-expected-differs', stable_height=sh.t, ts=ts, model=mdl(), c=c.t)
            return
        seen.add('ok')
        if applied != added:
            cands.add(kernel='a', role='cut-mismatch', stable_height=sh.t, ts=ts, model=mdl(), c=c.t, best=best, utxos_blocks=list(applied), balance_blocks=list(added))

    explore(prog, scenario, stats=st, on_panic=lambda it, e: cands.add(
        kernel='a', role='trap', ts=ts, model=it.model_ if it.feasible() else None, msg=str(e), c=z3.Int('c')))
    if {'ok', 'MalformedAddress', 'AddressForWrongNetwork', 'MinConfirmationsTooLarge'} <= seen:
        rep.cov['witnesses'] += 1
    rep.add_stats(st, 'a+b:cut-and-error-agreement')
    rep.cov['shapes'] += 1
    if ts.n >= 4 and sum(parents) % 4 == 0:
        rep.sample(dict(parents=parents, outcomes=sorted(seen)))
    return (rep.cov, cands.items, rep.inconclusive)


def worker_query(job):
    """kernel d: update and query variants compute the same thing (cycles calls stubbed, C16 decides the amounts)"""
    parents = job
    prog = PROG
    rep = H.Report(PROP, 'quick')
    cands = Cands()
    ts = btc.TreeScenario(parents)
    st = Stats()

    def scenario(it):
        btc.install(it, STUBS)
        ts.assume_ranges(it)
        net = 2
        fees = Agg('Fees', [Cell(SInt(0, 'u128')) for _ in prog.src.find_adt(['ic_btc_interface', 'Fees']).fields])   # amounts: C16
        state, sh, thr = mk_state(it, prog, ts, net=net, extra=dict(fees=fees))
        applied, added = [], []
        c04.install_ledger_stubs(it, applied, added)
        install_state(it, prog, state)
        it.overrides['verify_has_enough_cycles'] = lambda it_, k, r, a: UNIT
        it.overrides['charge_cycles'] = lambda it_, k, r, a: UNIT
        c = it.fresh('c', 'u32', 0, None)
        d = prog.src.find_adt(['types', 'GetBalanceRequest'])
        mk = lambda: H.mk_struct(prog, 'types::GetBalanceRequest', address=StrV('addr'), min_confirmations=some(c))
        r1 = decode_balance_result(prog, it.call('get_balance::get_balance', [mk()]))
        a1 = list(added)
        del added[:]
        r2 = decode_balance_result(prog, it.call('get_balance::get_balance_query', [mk()]))
        a2 = list(added)
        if r1['ok'] != r2['ok'] or a1 != a2:
            cands.add(kernel='d', role='balance-query-differs-from-update', ts=ts, model=it.model_ if it.feasible() else None, c=c.t)
        flt = H.mk_variant(prog, 'ic_btc_interface::UtxosFilter', 'MinConfirmations', c)
        mku = lambda: H.mk_struct(prog, 'types::GetUtxosRequest', address=StrV('addr'), filter=some(flt))
        del applied[:]
        u1 = it.call('get_utxos::get_utxos', [mku()])
        p1 = list(applied)
        del applied[:]
        u2 = it.call('get_utxos::get_utxos_query', [mku()])
        p2 = list(applied)
        if u1.variant != u2.variant or p1 != p2:
            cands.add(kernel='d', role='utxos-query-differs-from-update', ts=ts, model=it.model_ if it.feasible() else None, c=c.t)

    explore(prog, scenario, stats=st, on_panic=lambda it, e: cands.add(
        kernel='d', role='trap', ts=ts, model=it.model_ if it.feasible() else None, msg=str(e), c=z3.Int('c')))
    rep.add_stats(st, 'd:query-vs-update')
    return (rep.cov, cands.items, rep.inconclusive)


def worker_values(job):
    """kernel c: on transaction-carrying histories (real ledger code, no recorder stubs) the unfiltered balance equals the sum
    of the values of the UTXOs reported for the same address"""
    from checks import histlib as HL
    from mirsym import ledger as L
    parents, content = job
    prog = PROG
    rep = H.Report(PROP, 'quick')
    cands = Cands()
    st = Stats()
    hist = HL.History(parents, content)

    def scenario(it):
        w = HL.World(it, prog, hist)
        w.push_all()
        d = prog.src.find_adt(['GenericState'])
        svals = dict(utxos=w.us, unstable_blocks=w.ub)
        state = Agg('GenericState', [Cell(svals.get(f, Opaque(f))) for f in d.fields])
        sref = Ref(Cell(state))
        it.overrides['with_state'] = lambda it_, k, r, a: it_.call_value(a[0], [sref])
        it.overrides['with_state_mut'] = lambda it_, k, r, a: UNIT
        addr = HL.ADDRS[it.choose(2, 'address')]
        it.overrides['Address::from_str_checked'] = lambda it_, k, r, a: ok(L.address(addr))
        chain = it.call('unstable_blocks::get_main_chain', [w.ubref])
        ru = it.call('get_utxos_from_chain', [sref, StrV(addr), SInt(0, 'u32'), chain, none(), SInt(1000, 'usize')])
        rb = it.call('get_balance_private', [H.mk_struct(prog, 'types::GetBalanceRequest', address=StrV(addr), min_confirmations=none())])
        if ru.variant != 0 or rb.variant != 0:
            cands.add(kernel='c', role='unfiltered-request-errs', model=None, history=hist.descriptor(), address=addr)
            return
        resp = ru.fields[0].v.fields[0].v
        dr = prog.src.find_adt(['ic_btc_interface', 'GetUtxosResponse'])
        du = prog.src.find_adt(['ic_btc_interface', 'Utxo'])
        total = z3.IntVal(0)
        for c in resp.fields[dr.fields.index('utxos')].v.cells:
            total = total + zterm(c.v.fields[du.fields.index('value')].v.t)
        m = check_unsat(it, rep, total != zterm(rb.fields[0].v.t))
        if m is not None:
            cands.add(kernel='c', role='balance-differs-from-sum-of-utxos', model=m, history=hist.descriptor(), address=addr)
        return len(resp.fields[dr.fields.index('utxos')].v.cells)

    res = explore(prog, scenario, stats=st, on_panic=lambda it, e: cands.add(
        kernel='c', role='trap', model=it.model_ if it.feasible() else None, history=hist.descriptor(), msg=str(e)[:300]))
    rep.add_stats(st, 'c:value-agreement')
    if any((r or 0) >= 2 for r in res):
        rep.cov['witnesses'] += 1
    return (rep.cov, cands.items, rep.inconclusive)


def height_rule_cut(best, c):
    """get_balance's documented notion: a block at index i has len - i confirmations"""
    ln = len(best)
    return [b for i, b in enumerate(best) if ln - i >= c]


def confirm(cand, known):
    if cand.get('kernel') == 'c':
        from checks.c01 import native_views, judge_native_views
        res = native_views(cand['history'])
        # the property itself on the real endpoints: after every arrival, get_balance = sum of the values get_utxos returns
        probs = []
        for stp in res.get('steps', []):
            for a in ('A', 'B'):
                ans = stp[a]
                if isinstance(ans, dict) and 'utxos' in ans and stp.get('balance_' + a) != sum(u[2] for u in ans['utxos']):
                    probs.append('after block %s: get_balance(%s) = %s but get_utxos returns %s (sum %s)' % (
                        stp['after'], a, stp.get('balance_' + a), [(u[0], u[1], u[2]) for u in ans['utxos']], sum(u[2] for u in ans['utxos'])))
        probs += [p for p in judge_native_views(cand['history'], res, want_heights=False) if 'get_balance' in p]
        doc = dict(property=PROP, role=cand['role'], summary={k: v for k, v in cand.items() if k != 'shape'}, problems=probs[:3])
        return ('violation' if probs else 'not-reproduced'), doc
    ts = btc.TreeScenario(list(cand['shape'][1]))
    diffs = {int(k): v for k, v in cand['diffs'].items()}
    c = cand.get('c') if isinstance(cand.get('c'), int) else 0
    q = dict(addr=7, min_conf=c) if c else dict(addr=7)
    # blocks below the anchor: the counterexample's stable height (capped) is reproduced with a natively stabilised prefix
    shv = cand.get('stable_height')
    prefix = min(shv, 3) if isinstance(shv, int) and shv > 0 else 0
    ops = native_ops(ts, diffs, thr=1000 if prefix else 2, stable_prefix=prefix,
                     extra=[dict(op='main_chain'), dict(op='utxos', **q), dict(op='balance', **q),
                            dict(op='utxos', address='notanaddress', min_conf=c), dict(op='balance', address='notanaddress', min_conf=c)])
    res = C.run_native([dict(ops=ops)], tag='c05cx')[0]
    mc, ut, bal, ut_bad, bal_bad = res[-5:]
    problems = []
    if ('err' in ut) != ('err' in bal):
        problems.append('one endpoint errs, the other answers: utxos=%s balance=%s' % (ut, bal))
    elif 'err' in ut:
        if ut['err'].split(' ')[0] != bal['err'].split(' ')[0] or ut['err'][ut['err'].find('{'):] != bal['err'][bal['err'].find('{'):]:
            problems.append('different errors: %s vs %s' % (ut['err'], bal['err']))
    else:
        s = sum(u['value'] for u in ut['utxos'])
        if ut.get('next_page'):
            problems.append('unexpected pagination')
        if s != bal['balance']:
            problems.append('sum of get_utxos = %d but get_balance = %d (min_confirmations=%s)' % (s, bal['balance'], c))
    if ('err' in ut_bad) != ('err' in bal_bad):
        problems.append('malformed address handled differently')
    doc = dict(property=PROP, role=cand['role'], summary=dict(parents=ts.parents, difficulty=diffs, min_confirmations=c),
               native=dict(main_chain=mc, utxos=ut, balance=bal), problems=problems, scenario=dict(ops=ops))
    if not problems:
        return 'not-reproduced', doc
    for k in known:
        if k['id'] == 'C05-balance-height-rule-vs-utxos-stability-rule' and cand['role'] == 'cut-mismatch' and 'err' not in ut:
            # the listed defect: each endpoint follows its own documented confirmation notion, and they differ on forks:
            # get_balance counts confirmations by height on the best chain, get_utxos by stability count
            best = mc['chain']
            _, kcut = c04.oracle_cut(ts, diffs, c) if c >= 1 else (best, len(best) - 1)
            bal_expected = sum(1000 + i for i in height_rule_cut(best, c))
            ut_expected = sorted(1000 + i for i in best[:kcut + 1])
            if len(ts.leaves) >= 2 and bal['balance'] == bal_expected and sorted(u['value'] for u in ut['utxos']) == ut_expected:
                return 'known:' + k['id'], doc
    return 'violation', doc


def main():
    global PROG
    tier = C.tier()
    rep = H.Report(PROP, tier)
    N = 5 if tier == 'quick' else 7
    prog = PROG = c04.PROG = H.load_program(['canister'])
    btc.load_dep_decls(prog)
    rep.cov['bounds'] = dict(tree_blocks=N, difficulty='symbolic in [1, 2^100)', min_confirmations='absent, or symbolic u32 (0 included)',
                             address_outcomes='Ok / MalformedAddress / WrongNetwork (nondeterministic stub)',
                             outside='trees beyond the bound; while a block is being ingested in slices (C08); filtered requests on the value kernel (the cut itself is kernel a)')
    rep.cov['mir'] = prog.info
    rep.cov['functions_encoded'] = ['get_balance_private (+closures)', 'get_balance::{get_balance,get_balance_query}', 'get_utxos_from_chain',
                                    'get_utxos_private', 'get_utxos::{get_utxos,get_utxos_query}', 'get_utxos_internal', 'get_stability_count',
                                    'unstable_blocks::get_main_chain', 'BlockTree::{main_chain_by_difficulty,block_hashes_with_depths_by_heights}']
    rep.cov['stubs'] = btc.stub_docs(STUBS) + ['Address::from_str_checked -> nondeterministic Ok/Malformed/WrongNetwork',
                                              'AddressUtxoSet::apply_block, get_added_outpoints -> recorders', 'UtxoSet::get_balance -> fresh symbolic',
                                              'with_state(f) -> f(&state)', 'verify_has_enough_cycles / charge_cycles -> no-ops (C16)']
    rep.assumptions = ['std models faithful', 'block hash = injective id']
    cands = Cands()
    jobs = list(shapes_upto(N))
    for part in parallel(jobs, worker):
        merge_partial(rep, cands, part)
    for part in parallel(list(shapes_upto(min(N, 4))), worker_query):
        merge_partial(rep, cands, part)
    from checks import histlib as HL
    r = C.rng()
    hjobs = HL.history_list(tier, r, 3 if tier == 'quick' else 4, 3 if tier == 'quick' else 8)
    for part in parallel(hjobs, worker_values):
        merge_partial(rep, cands, part)
    rep.cov['bounds']['value_kernel'] = '%d transaction-carrying histories (checks/histlib.py), both addresses, unfiltered requests, amounts symbolic' % len(hjobs)
    rep.cov['traces_validated_against_impl'] += 0
    settle(rep, PROP, cands, confirm, H.load_known(PROP), cap=10, describe=lambda d: '%s %s' % (d.get('problems'), d.get('summary')))
    return rep.finish()


if __name__ == '__main__':
    C.run_check(main)
