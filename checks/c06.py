#!/usr/bin/env python3
"""C06 - paginated UTXO answers form one consistent snapshot.

Kernels (MIR regenerated from /repo):
  b  Page::from_bytes / Page::to_bytes at byte level: a blob of every length 0..=80 with symbolic bytes is either rejected with the
     explicit error (length != 72) or decoded without a trap, and to_bytes(from_bytes(b)) = b; to_bytes of a page with symbolic
     fields has 72 bytes and from_bytes returns the same fields
  w  get_utxos_private: for the three filter variants the inner function receives the request's address / min_confirmations /
     page bytes unchanged and a page size <= 1000
  p  get_utxos_internal on transaction-carrying histories (real AddressUtxoSet / MultiIter / UtxoSet readers / ingestion) with a
     small page size: the first request is made after some arrival step, the following page requests after later steps
     (blocks arrive, forks grow, the anchor advances and older blocks - including the one holding the paged outputs - become
     stable in between).  Following next_page yields exactly the ledger's UTXO set of the first response's tip, each element
     once, height-descending, at most `limit` per page, every page naming that tip and its height; a page request fails only
     with UnknownTipBlockHash and only when the tip has left the tree
  t  arbitrary page tokens on the final state: tip in the tree / unknown, symbolic height, known / unknown outpoint: an answer
     that is a sub-sequence of that tip's view from the offset on, or an explicit error; never a trap
"""
import os, sys, time, json
import z3
sys.path.insert(0, os.path.dirname(os.path.dirname(os.path.abspath(__file__))))
from checks import common as C
from checks.treelib import *   # noqa: F401,F403
from checks import histlib as HL
from mirsym import ledger as L
from mirsym.models_coll import MapV
from mirsym.models_std import as_slice, deref
from mirsym.interp import deep_clone

PROP = 'C06'
PROG = None
PAGE_LEN = 72


# ------------------------------------------------------------------------------------------------ b: byte codec
def worker_bytes(job):
    kind, n = job
    prog = PROG
    rep = H.Report(PROP, 'quick')
    cands = Cands()
    st = Stats()
    seen = set()
    dp = prog.src.find_adt(['types', 'Page'])

    def fields_of(page):
        g = lambda f: page.fields[dp.fields.index(f)].v
        hb = [c.v.t for c in as_slice(g('tip_block_hash').fields[0].v).cells()]
        op = g('outpoint')
        tx = [c.v.t for c in as_slice(op.fields[0].v.fields[0].v).cells()]
        return hb, g('height').t, tx, op.fields[1].v.t

    def scenario(it):
        btc.install(it, ['print', 'perf_counter'])
        from checks.c01 import install_bytes_models
        install_bytes_models(it)
        if kind == 'decode':
            bs = [it.fresh('b%d' % i, 'u8', 0, 255) for i in range(n)]
            r = it.call('Page::from_bytes', [VecV([Cell(SInt(b.t, 'u8')) for b in bs])])
            if n != PAGE_LEN:
                seen.add('err')
                if r.variant != 1:
                    cands.add(kernel='b', role='blob-of-wrong-length-accepted', model=it.model_ if it.feasible() else None, length=n)
                return
            if r.variant != 0:
                cands.add(kernel='b', role='well-sized-blob-rejected', model=it.model_ if it.feasible() else None, length=n)
                return
            seen.add('ok')
            page = r.fields[0].v
            hb, h, tx, vout = fields_of(page)
            exp_h = sum(((255 - zterm(bs[32 + i].t)) * (1 << (8 * (3 - i))) for i in range(4)), z3.IntVal(0))
            exp_v = sum((zterm(bs[68 + i].t) * (1 << (8 * i)) for i in range(4)), z3.IntVal(0))
            bad = z3.Or(zterm(h) != exp_h, zterm(vout) != exp_v, *[zterm(hb[i]) != zterm(bs[i].t) for i in range(32)],
                        *[zterm(tx[i]) != zterm(bs[36 + i].t) for i in range(32)])
            m = check_unsat(it, rep, bad)
            if m is not None:
                cands.add(kernel='b', role='decoded-fields-differ-from-layout', model=m, length=n, blob=[x.t for x in bs])
                return
            back = it.call('Page::to_bytes', [Ref(Cell(page))])
            bb = [c.v.t for c in back.cells]
            if len(bb) != n:
                cands.add(kernel='b', role='re-encoding-has-another-length', model=None, length=len(bb))
                return
            m = check_unsat(it, rep, z3.Or(*[zterm(x) != zterm(y.t) for x, y in zip(bb, bs)]))
            if m is not None:
                cands.add(kernel='b', role='re-encoding-differs', model=m, length=n, blob=[x.t for x in bs])
        else:
            hb = [it.fresh('h%d' % i, 'u8', 0, 255) for i in range(32)]
            tx = [it.fresh('t%d' % i, 'u8', 0, 255) for i in range(32)]
            height = it.fresh('height', 'u32')
            vout = it.fresh('vout', 'u32')
            page = H.mk_struct(prog, 'types::Page', tip_block_hash=Agg('BlockHash', [Cell(Agg('[]', [Cell(SInt(b.t, 'u8')) for b in hb]))]),
                               height=height, outpoint=Agg('OutPoint', [Cell(Agg('Txid', [Cell(VecV([Cell(SInt(b.t, 'u8')) for b in tx]))])), Cell(vout)]))
            enc = it.call('Page::to_bytes', [Ref(Cell(page))])
            if len(enc.cells) != PAGE_LEN:
                cands.add(kernel='b', role='token-length', model=None, length=len(enc.cells))
                return
            r = it.call('Page::from_bytes', [enc])
            if r.variant != 0:
                cands.add(kernel='b', role='own-token-rejected', model=it.model_ if it.feasible() else None)
                return
            hb2, h2, tx2, v2 = fields_of(r.fields[0].v)
            bad = z3.Or(zterm(h2) != height.t, zterm(v2) != vout.t, *[zterm(a) != zterm(b.t) for a, b in zip(hb2, hb)], *[zterm(a) != zterm(b.t) for a, b in zip(tx2, tx)])
            m = check_unsat(it, rep, bad)
            if m is not None:
                cands.add(kernel='b', role='token-does-not-round-trip', model=m)
            seen.add('ok')

    explore(prog, scenario, stats=st, on_panic=lambda it, e: cands.add(kernel='b', role='trap', model=it.model_ if it.feasible() else None, length=n, msg=str(e)[:300]))
    rep.add_stats(st, 'b:page-codec')
    if seen:
        rep.cov['witnesses'] += 1
    else:
        cands.add(kernel='b', role='codec-never-completes', model=None, vacuity=True, length=n)
    if n in (0, 71, 72, 73):
        rep.sample(dict(kernel='b', kind=kind, length=n, outcome=sorted(seen), paths=st.paths))
    return (rep.cov, cands.items, rep.inconclusive)


# ------------------------------------------------------------------------------------------------ w: wrapper
def worker_wrap(job):
    prog = PROG
    rep = H.Report(PROP, 'quick')
    cands = Cands()
    st = Stats()
    seen = set()
    from checks.c16 import base_state, ins_stats, Cycles

    def scenario(it):
        btc.install(it, ['print', 'perf_counter'])
        state, fv = base_state(it, prog)
        it.assume(fv['get_utxos_base'] <= fv['get_utxos_maximum'])
        Cycles(it)
        fk = it.choose(3, 'filter')
        fn = ['get_utxos::get_utxos', 'get_utxos::get_utxos_query'][it.choose(2, 'variant')]
        c = it.fresh('c', 'u32')
        blob = VecV([Cell(it.fresh('pb%d' % i, 'u8', 0, 255)) for i in range(3)])
        d = prog.src.find_adt(['types', 'UtxosFilter'])
        flt = [none(), some(H.mk_variant(prog, 'types::UtxosFilter', 'MinConfirmations', SInt(c.t, 'u32'))),
               some(H.mk_variant(prog, 'types::UtxosFilter', 'Page', Agg('ByteBuf', [Cell(blob)])))][fk]
        got = []

        def inner(it_, k, r, a):
            got.append(a)
            s, _ = ins_stats(it_, prog, 'get_utxos::Stats', prog.src.find_adt(['get_utxos', 'Stats']).fields)
            return ok(tup(Opaque('response'), s))
        it.overrides['get_utxos_internal'] = inner
        it.overrides['ByteBuf::to_vec'] = lambda it_, k, r, a: VecV([Cell(x.v) for x in deref(a[0]).fields[0].v.cells])
        it.overrides['<ByteBuf as Deref>::deref'] = lambda it_, k, r, a: Ref(deref(a[0]).fields[0])
        req = H.mk_struct(prog, 'types::GetUtxosRequest', address=StrV('addr'), filter=flt)
        try:
            it.call(fn, [req])
        except Panic:
            seen.add('trap')       # not enough cycles (C16)
            return
        if len(got) != 1:
            cands.add(kernel='w', role='inner-function-not-called-once', model=None, calls=len(got))
            return
        a = got[0]
        addr, mc, page, limit = deref(a[1]), a[2], a[3], a[4]
        seen.add(fk)
        probs = []
        if not (isinstance(addr, StrV) and addr.s == 'addr'):
            probs.append('address')
        if isinstance(limit.t, int):
            if limit.t > 1000 or limit.t < 1:
                probs.append('page size %d' % limit.t)
        else:
            if check_unsat(it, rep, z3.Or(zterm(limit.t) > 1000, zterm(limit.t) < 1)) is not None:
                probs.append('page size')
        exp_mc = c.t if fk == 1 else 0
        if check_unsat(it, rep, zterm(mc.t) != exp_mc) is not None:
            probs.append('min_confirmations')
        if fk == 2:
            if page.variant != 1 or len(page.fields[0].v.cells) != 3 or \
                    check_unsat(it, rep, z3.Or(*[zterm(x.v.t) != zterm(y.v.t) for x, y in zip(page.fields[0].v.cells, blob.cells)])) is not None:
                probs.append('page bytes')
        elif page.variant != 0:
            probs.append('page given without a page filter')
        if probs:
            cands.add(kernel='w', role='wrapper-passes-wrong-arguments', model=it.model_ if it.feasible() else None, problems=probs, filter=fk)

    explore(prog, scenario, stats=st)
    rep.add_stats(st, 'w:wrapper')
    if {0, 1, 2} <= seen:
        rep.cov['witnesses'] += 1
    else:
        rep.inconclusive = 'vacuity: wrapper variants reached %s' % sorted(map(str, seen))
    rep.sample(dict(kernel='w', variants=sorted(map(str, seen)), paths=st.paths))
    return (rep.cov, cands.items, rep.inconclusive)


# ------------------------------------------------------------------------------------------------ p: pagination on histories
def install_state(it, prog, w):
    """GenericState around the world's UTXO set and unstable blocks; stable header store and announced headers are recorders"""
    d = prog.src.find_adt(['GenericState'])
    it.overrides['BlockHeaderStore::insert_block'] = lambda it_, k, r, a: UNIT
    it.overrides['NextBlockHeaders::remove_until_height'] = lambda it_, k, r, a: UNIT
    it.overrides['NextBlockHeaders::remove'] = lambda it_, k, r, a: UNIT
    dm = prog.src.find_adt(['metrics', 'Metrics'])
    metrics = Agg('Metrics', [Cell(Opaque(f)) for f in dm.fields])
    svals = dict(utxos=w.us, unstable_blocks=w.ub, metrics=metrics)
    state = Agg('GenericState', [Cell(svals.get(f, Opaque(f))) for f in d.fields])
    return Ref(Cell(state))


def install_tokens(it, prog):
    """struct-level page tokens: to_bytes wraps the Page value into a one-element vector, from_bytes unwraps it (the byte
    layout and the rejection of every other blob is kernel b)"""
    def to_bytes(it_, k, r, a):
        return VecV([Cell(deep_clone(deref(a[0])))])

    def from_bytes(it_, k, r, a):
        v = a[0]
        if isinstance(v, VecV) and len(v.cells) == 1 and isinstance(v.cells[0].v, Agg) and v.cells[0].v.ty.endswith('Page'):
            return ok(v.cells[0].v)
        return err(StrV('malformed'))
    it.overrides['Page::to_bytes'] = to_bytes
    it.overrides['Page::from_bytes'] = from_bytes
    it.overrides['<ByteBuf as From>::from'] = lambda it_, k, r, a: Agg('ByteBuf', [Cell(a[0])])
    it.overrides['ByteBuf::from'] = it.overrides['<ByteBuf as From>::from']


def decode_response(prog, r):
    """-> dict(tip, tip_height, utxos [(outpoint key, value term, height term)], next (Vec or None)) | dict(err=variant name)"""
    if r.variant != 0:
        d = prog.src.find_adt(['ic_btc_interface', 'GetUtxosError'])
        e = r.fields[0].v
        return dict(err=d.variants[e.variant][0] if hasattr(d, 'variants') else str(e.variant))
    resp = r.fields[0].v.fields[0].v
    dr = prog.src.find_adt(['ic_btc_interface', 'GetUtxosResponse'])
    du = prog.src.find_adt(['ic_btc_interface', 'Utxo'])
    g = lambda f: resp.fields[dr.fields.index(f)].v
    utx = []
    for c in g('utxos').cells:
        u = c.v
        op = u.fields[du.fields.index('outpoint')].v
        utx.append((op, u.fields[du.fields.index('value')].v.t, u.fields[du.fields.index('height')].v.t))
    nxt = g('next_page')
    return dict(tip=g('tip_block_hash'), tip_height=g('tip_height').t, utxos=utx, next=(nxt.fields[0].v.fields[0].v if nxt.variant == 1 else None))


def tip_id(v):
    """tip_block_hash of a response (BlockHash::to_vec of the injective id)"""
    v = deref(v)
    t = v.cells[0].v.t if isinstance(v, VecV) else v.fields[0].v.t
    if not isinstance(t, int):
        t = z3.simplify(t)
        t = t.as_long() if z3.is_int_value(t) else t
    return t


def pub_op_key(op):
    """ic_btc_interface::OutPoint {txid: Txid, vout} -> (tx label, vout)"""
    d = PROG.src.find_adt(['ic_btc_interface', 'OutPoint'])
    tx = op.fields[d.fields.index('txid')].v
    while isinstance(tx, Agg) and tx.fields and isinstance(tx.fields[0].v, (Agg,)):
        tx = tx.fields[0].v
    t = tx.fields[0].v.t if isinstance(tx, Agg) else tx.t
    return (t, op.fields[d.fields.index('vout')].v.t)


def worker_pages(job):
    parents, content, thr, addr, limit, minconf, pages_at = job
    prog = PROG
    rep = H.Report(PROP, 'quick')
    cands = Cands()
    st = Stats()
    hist = HL.History(parents, content)
    ts = hist.ts
    seen = set()
    info = dict(history=hist.descriptor(), threshold=thr, address=addr, limit=limit, min_confirmations=minconf, pages_at=list(pages_at))

    def scenario(it):
        from checks.c20 import tree_blocks
        w = HL.World(it, prog, hist, thr=SInt(thr, 'u32'))
        orc = HL.Oracle(hist, w)
        sref = install_state(it, prog, w)
        install_tokens(it, prog)
        it.overrides['Address::from_str_checked'] = lambda it_, k, r, a: ok(L.address(addr))
        mdl = lambda: it.model_ if it.feasible() else None
        amounts = {'%d:%d' % k: t for k, t in w.val.items()}
        pg = dict(token=None, tip=None, tip_h=None, got=[], done=False, first=True, npages=0, moved=False, tree0=None)

        def request(present):
            """one page request on the current state; returns False when judging is over"""
            if pg['done']:
                return False
            page = none() if pg['first'] else some(pg['token'])
            r = it.call('get_utxos_internal', [sref, StrV(addr), SInt(minconf if pg['first'] else 0, 'u32'), page, SInt(limit, 'usize')])
            res = decode_response(prog, r)
            if os.environ.get('C06_DEBUG'):
                print('page', 'first' if pg['first'] else 'next', 'tree', sorted(present), {k: (v if k != 'utxos' else [pub_op_key(o) for o, _, _ in v]) for k, v in res.items() if k in ('err', 'utxos')})
            if pg['first']:
                pg['first'] = False
                if 'err' in res:
                    pg['done'] = True
                    seen.add('first-err')
                    if minconf == 0:
                        cands.add(kernel='p', amounts=amounts, role='unfiltered-first-request-fails', model=mdl(), error=res['err'], **info)
                    return False
                pg['tip'] = tip_id(res['tip'])
                pg['tip_h'] = res['tip_height']
                pg['tree0'] = sorted(present)
            else:
                tip_present = pg['tip'] in present
                if 'err' in res:
                    pg['done'] = True
                    if tip_present or res['err'] != 'UnknownTipBlockHash':
                        cands.add(kernel='p', amounts=amounts, role='page-request-fails-although-tip-is-available' if tip_present else 'wrong-error-for-vanished-tip',
                                  model=mdl(), error=res['err'], tip=pg['tip'], tree=sorted(present), **info)
                    else:
                        seen.add('tip-gone-error')
                    return False
                if not tip_present:
                    pg['done'] = True
                    cands.add(kernel='p', amounts=amounts, role='page-served-for-a-tip-no-longer-available', model=mdl(), tip=pg['tip'], tree=sorted(present), **info)
                    return False
                if tip_id(res['tip']) != pg['tip']:
                    pg['done'] = True
                    cands.add(kernel='p', amounts=amounts, role='page-names-another-tip', model=mdl(), first_tip=pg['tip'], page_tip=tip_id(res['tip']), page=pg['npages'], **info)
                    return False
                m = check_unsat(it, rep, zterm(res['tip_height']) != zterm(pg['tip_h']))
                if m is not None:
                    pg['done'] = True
                    cands.add(kernel='p', amounts=amounts, role='page-names-another-tip-height', model=m, page=pg['npages'], **info)
                    return False
            pg['npages'] += 1
            if len(res['utxos']) > limit:
                pg['done'] = True
                cands.add(kernel='p', amounts=amounts, role='page-larger-than-limit', model=mdl(), size=len(res['utxos']), **info)
                return False
            if sorted(present) != pg['tree0']:
                pg['moved'] = True
            pg['got'].extend((pub_op_key(op), v, h) for op, v, h in res['utxos'])
            if res['next'] is None:
                pg['done'] = True
                finish()
                return False
            if not res['utxos']:
                pg['done'] = True
                cands.add(kernel='p', amounts=amounts, role='empty-page-with-continuation', model=mdl(), **info)
                return False
            pg['token'] = res['next']
            return True

        def finish():
            # the ledger's answer as of the first response's tip (with a confirmation filter: of the cut block it names)
            exp = orc.address_view(pg['tip'], addr)
            got = pg['got']
            seen.add(('complete', pg['npages'], pg['moved']))
            gk = [g[0] for g in got]
            ek = [e[0] for e in exp]
            if len(set(gk)) != len(gk):
                cands.add(kernel='p', amounts=amounts, role='utxo-returned-twice-across-pages', model=mdl(), got=gk, expected=ek, tip=pg['tip'], **info)
                return
            if sorted(gk) != sorted(ek):
                cands.add(kernel='p', amounts=amounts, role='pages-do-not-add-up-to-the-snapshot', model=mdl(), got=gk, expected=ek, missing=sorted(set(ek) - set(gk)),
                          extra=sorted(set(gk) - set(ek)), tip=pg['tip'], **info)
                return
            ev = {e[0]: e for e in exp}
            for k, v, h in got:
                m = check_unsat(it, rep, zterm(v) != zterm(ev[k][1]))
                if m is not None:
                    cands.add(kernel='p', amounts=amounts, role='value-differs-from-snapshot', model=m, outpoint=list(k), tip=pg['tip'], **info)
                    return
            # order: the reported heights never increase along the pages (that each height is the right one is C01's kernel k2)
            for (k1, _, h1), (k2, _, h2) in zip(got, got[1:]):
                m = check_unsat(it, rep, zterm(h1) < zterm(h2))
                if m is not None:
                    cands.add(kernel='p', amounts=amounts, role='not-height-descending-across-pages', model=m, got=gk, tip=pg['tip'], **info)
                    return

        present = [1]
        sched = list(pages_at) + [pages_at[-1]] * 30        # the remaining pages are requested at the last scheduled step

        def serve(step):
            while sched and sched[0] == step:
                sched.pop(0)
                if not request(present):
                    return
        serve(1)
        for b in range(2, ts.n + 1):
            if ts.par[b] not in present:
                continue
            w.push(b)
            present.append(b)
            it.call('state::ingest_stable_blocks_into_utxoset', [sref])
            now = tree_blocks(prog, w.ub)
            if sorted(now) != sorted(present):
                present = [x for x in present if x in now]
            serve(b)
        guard = 0
        while not pg['done'] and not pg['first'] and guard < 40:
            guard += 1
            request(present)
        return pg['npages']

    explore(prog, scenario, stats=st, on_panic=lambda it, e: cands.add(kernel='p', role='trap', model=it.model_ if it.feasible() else None, msg=str(e)[:300], **info))
    rep.add_stats(st, 'p:pagination')
    rep.cov['shapes'] += 1
    multi = [s for s in seen if isinstance(s, tuple) and s[1] >= 2]
    if multi:
        rep.cov['witnesses'] += 1
    if any(s[2] for s in multi):
        rep.cov['moved'] = rep.cov.get('moved', 0) + 1
    if 'tip-gone-error' in seen:
        rep.cov['tip_gone'] = rep.cov.get('tip_gone', 0) + 1
    if multi and (sum(parents) + limit) % 3 == 0:
        rep.sample(dict(kernel='p', parents=parents, transactions_per_block=content, threshold=thr, address=addr, limit=limit, min_confirmations=minconf,
                        pages_at=list(pages_at), outcome=sorted(map(str, seen))))
    return (rep.cov, cands.items, rep.inconclusive)


# ------------------------------------------------------------------------------------------------ t: arbitrary tokens
def worker_tokens(job):
    parents, content, addr = job
    prog = PROG
    rep = H.Report(PROP, 'quick')
    cands = Cands()
    st = Stats()
    hist = HL.History(parents, content)
    ts = hist.ts
    seen = set()
    info = dict(history=hist.descriptor(), address=addr)

    def scenario(it):
        w = HL.World(it, prog, hist)
        w.push_all()
        it.c06_token = None
        orc = HL.Oracle(hist, w)
        sref = install_state(it, prog, w)
        install_tokens(it, prog)
        it.overrides['Address::from_str_checked'] = lambda it_, k, r, a: ok(L.address(addr))
        tips = list(range(1, ts.n + 1)) + [77]
        tip = tips[it.choose(len(tips), 'tip')]
        allk = sorted(orc.utxos_at(ts.leaves[0]).keys())
        ops = [allk[0], allk[len(allk) // 2], allk[-1], (999, 0)]
        op = ops[it.choose(len(ops), 'outpoint')]
        h = it.fresh('page_height', 'u32')
        limit = 1 + it.choose(2, 'limit')
        page = H.mk_struct(prog, 'types::Page', tip_block_hash=btc.bh(tip), height=h, outpoint=L.outpoint(*op))
        tokinfo = dict(token_tip=tip, token_outpoint=list(op), token_height=h.t, stable_height=w.sh.t, limit=limit, amounts={'%d:%d' % k: t for k, t in w.val.items()})
        it.c06_token = tokinfo
        r = it.call('get_utxos_internal', [sref, StrV(addr), SInt(0, 'u32'), some(VecV([Cell(page)])), SInt(limit, 'usize')])
        res = decode_response(prog, r)
        if 'err' in res:
            seen.add('err')
            if tip != 77 or res['err'] != 'UnknownTipBlockHash':
                cands.add(kernel='t', role='token-with-known-tip-rejected' if tip != 77 else 'wrong-error-for-unknown-tip', model=it.model_ if it.feasible() else None,
                          error=res['err'], tip=tip, **tokinfo, **info)
            return
        if tip == 77:
            cands.add(kernel='t', role='unknown-tip-answered', model=None, **tokinfo, **info)
            return
        seen.add('ok')
        exp = orc.address_view(tip, addr)
        ek = [e[0] for e in exp]
        gk = [pub_op_key(o) for o, v, hh in res['utxos']]
        if len(gk) > limit or any(k not in ek for k in gk) or len(set(gk)) != len(gk):
            cands.add(kernel='t', role='token-answer-not-within-the-tip-view', model=it.model_ if it.feasible() else None, got=gk, view=ek, tip=tip, **tokinfo, **info)
            return
        # elements are at or after the offset: reported height <= page height
        for (o, v, hh), k in zip(res['utxos'], gk):
            m = check_unsat(it, rep, zterm(hh) > h.t)
            if m is not None:
                cands.add(kernel='t', role='element-before-the-offset-returned', model=m, outpoint=list(k), tip=tip, **tokinfo, **info)
                return

    explore(prog, scenario, stats=st, on_panic=lambda it, e: cands.add(kernel='t', role='trap', model=it.model_ if it.feasible() else None, msg=str(e)[:300], **(getattr(it, 'c06_token', None) or {}), **info))
    rep.add_stats(st, 't:arbitrary-tokens')
    if {'ok', 'err'} <= seen:
        rep.cov['witnesses'] += 1
    return (rep.cov, cands.items, rep.inconclusive)


def worker(job):
    k, j = job
    return dict(b=worker_bytes, w=worker_wrap, p=worker_pages, t=worker_tokens)[k](j)


# ------------------------------------------------------------------------------------------------ native side
def pool_json():
    return {str(k): [list(map(list, v[0])), v[1]] for k, v in HL.POOL.items()}


def model_values(model):
    """amounts of a solver model as the native op's {"label:vout": sat} map"""
    out = {}
    for k, v in (model or {}).items():
        try:
            if k.startswith('sv') and k[2:].isdigit():
                t, vo = HL.STABLE[int(k[2:])][:2]
                out['%d:%d' % (t, vo)] = int(v)
            elif k.startswith('v') and '_' in k and k[1:].replace('_', '').isdigit():
                t, vo = k[1:].split('_')
                out['%d:%d' % (int(t), int(vo))] = int(v)
        except (ValueError, TypeError):
            pass
    return out


def native_pages(desc, thr, addr, limit, minconf, pages_at, pool=None, values=None, token=None):
    parents, content = desc
    paging = dict(address=addr, pages_at=list(pages_at) + [pages_at[-1]] * 30)
    if minconf:
        paging['min_confirmations'] = minconf
    if limit:
        paging['limit'] = limit
    if token:
        paging['token'] = token
    op = dict(op='history', parents=parents, content={str(k): v for k, v in content.items()}, threshold=thr, stable=[list(x) for x in HL.STABLE],
              pool=pool or pool_json(), paging=paging, values=values or {})
    return C.run_native([dict(ops=[op])], tag='c06')[0][-1]


def ledger_keys(desc, tip, addr, pool=None):
    """independent of the symbolic side: outpoints paying `addr` that are unspent after the chain anchor..tip"""
    parents, content = desc
    content = {int(k): v for k, v in content.items()}
    par = {b + 2: p for b, p in enumerate(parents)}
    path = [tip]
    while path[-1] in par:
        path.append(par[path[-1]])
    path.reverse()
    poolf = lambda t: (pool[str(t)] if pool else [list(map(list, HL.POOL[t][0])), HL.POOL[t][1]])
    u = {(t, v): kind for (t, v, kind, below) in HL.STABLE}
    for b in path:
        txs = [(HL.coinbase_id(b), [], ['A' if b % 2 else 'B'])] + [(t, poolf(t)[0], poolf(t)[1]) for t in content.get(b, [])]
        for tid, ins, kinds in txs:
            for i in ins:
                u.pop(tuple(i), None)
            for oi, kind in enumerate(kinds):
                u[(tid, oi)] = kind
    return sorted(k for k, kind in u.items() if kind == addr)


def judge_native(desc, thr, addr, res, minconf=0, limit=None, pool=None):
    """problems of a natively served pagination: against the natively reported unpaginated view of the same tip where the run
    offers one (steps), else internal consistency (each once, same tip, explicit error only for a vanished tip)"""
    probs = []
    if res.get('trap'):
        return ['trap: %s' % res['trap'][:200]]
    pages = res.get('pages') or []
    if not pages:
        return []
    first = pages[0]
    if 'err' in first or 'trap' in first:
        return ['first request: %s' % str(first)[:200]] if (minconf == 0 or 'trap' in first) else []
    tip, tip_h = first['tip'], first['tip_height']
    got = []
    trees = {s['after']: s['tree'] for s in res['steps']}
    last_tree = res['steps'][-1]['tree'] if res['steps'] else []
    for k, p in enumerate(pages):
        tree = trees.get(p['at'], last_tree) if p['at'] else last_tree
        if 'trap' in p:
            return ['page %d traps: %s' % (k, p['trap'][:200])]
        if 'err' in p:
            if tip in tree or 'UnknownTipBlockHash' not in p['err']:
                probs.append('page %d fails with %s while tip %s %s the tree %s' % (k, p['err'][:60], tip, 'is in' if tip in tree else 'left', tree))
            return probs
        if p['tip'] != tip or p['tip_height'] != tip_h:
            probs.append('page %d names tip %s height %s, first response named %s height %s' % (k, p['tip'], p['tip_height'], tip, tip_h))
        if len(p['utxos']) > (limit or 1000):
            probs.append('page %d has %d elements' % (k, len(p['utxos'])))
        got.extend((u[0], u[1]) for u in p['utxos'])
    if pages[-1].get('has_next'):
        probs.append('pagination did not finish')
        return probs
    if len(set(got)) != len(got):
        dup = sorted(set(x for x in got if got.count(x) > 1))
        probs.append('returned twice across pages: %s' % dup[:6])
    # reference: the ledger's UTXO set of the named tip
    if isinstance(tip, int):
        ref = ledger_keys(desc, tip, addr, pool)
        if sorted(ref) != sorted(set(got)):
            miss, extra = sorted(set(ref) - set(got)), sorted(set(got) - set(ref))
            probs.append('pages differ from the UTXO set of tip %s: missing %s extra %s' % (tip, miss[:8], extra[:8]))
    heights = [u[3] for p in pages if 'utxos' in p for u in p['utxos']]
    if heights != sorted(heights, reverse=True):
        probs.append('heights not descending across pages: %s' % heights)
    return probs


def confirm(cand, known):
    doc = dict(property=PROP, role=cand['role'], summary={k: v for k, v in cand.items() if k not in ('shape',)}, problems=[])
    if cand.get('native'):
        doc['problems'] = cand['problems'][:4]
        return 'violation', doc
    if cand['kernel'] in ('p', 't'):
        if cand['kernel'] == 't' and isinstance(cand.get('token_tip'), int):
            return confirm_token(cand, doc)
        if cand['kernel'] == 't':
            args = (cand['history'], 1, cand['address'], 1, 0, [len(cand['history'][0]) + 1])
        else:
            args = (cand['history'], cand['threshold'], cand['address'], cand['limit'], cand['min_confirmations'], cand['pages_at'])
        res = native_pages(*args, values={k: v for k, v in (cand.get('amounts') or {}).items() if isinstance(v, int)})
        probs = judge_native(args[0], args[1], args[2], res, args[4], args[3])
        doc['values'] = cand.get('amounts') or {}
        doc['native_pages'] = res.get('pages')
        if probs:
            doc['problems'] = probs[:4]
            return 'violation', doc
        return 'not-reproduced', doc
    if cand['kernel'] == 'b':
        n = cand.get('length', PAGE_LEN)
        blob = [int(x) for x in (cand.get('blob') or [0] * n)]
        res = C.run_native([dict(ops=[dict(op='init', network='regtest'), dict(op='utxos_page_blob', blob=blob)])], tag='c06b')[0][-1]
        doc['native'] = res
        doc['blob'] = blob
        if res.get('trap') or (n != PAGE_LEN and 'MalformedPage' not in str(res.get('err'))) or (n == PAGE_LEN and 'MalformedPage' in str(res.get('err'))):
            doc['problems'] = [str(res)[:300]]
            return 'violation', doc
        return 'not-reproduced', doc
    if cand['kernel'] == 'w':
        # the wrapper's page size is observable natively: more than 1000 UTXOs in one response
        big = pool_json()
        big[str(HL.WIDE)] = [[[1, 1]], ['A'] * 1300]
        res = native_pages(([1, 2], {2: [HL.WIDE]}), 3, 'A', None, 0, [3], big)
        sizes = [len(p.get('utxos', [])) for p in res.get('pages', [])]
        doc['native_page_sizes'] = sizes
        if any(x > 1000 for x in sizes) or not sizes:
            doc['problems'] = ['page sizes %s' % sizes]
            return 'violation', doc
        return 'not-reproduced', doc
    return 'not-reproduced', doc


def confirm_token(cand, doc):
    """an arbitrary page token through the real endpoint: the answer must lie within the ledger view of the named tip, at or after
    the offset, at most `limit` elements; an unknown tip must give UnknownTipBlockHash; nothing traps"""
    desc = cand['history']
    n = len(desc[0]) + 1
    th, shv = cand.get('token_height'), cand.get('stable_height')
    rel = (th - shv) if isinstance(th, int) and isinstance(shv, int) else 0
    rel = max(-50, min(rel, 50))
    tok = dict(tip=cand['token_tip'], height_rel=rel, tx=cand['token_outpoint'][0], vout=cand['token_outpoint'][1])
    vals = {k: v for k, v in (cand.get('amounts') or {}).items() if isinstance(v, int)}
    res = native_pages(desc, 100, cand['address'], cand.get('limit') or 1, 0, [n], values=vals, token=tok)
    pages = res.get('pages') or []
    doc['native_pages'] = pages[:3]
    doc['token'] = tok
    if res.get('trap') or not pages:
        doc['problems'] = ['native run: %s' % str(res.get('trap') or 'no page served')[:200]]
        return ('violation' if res.get('trap') else 'not-reproduced'), doc
    p0 = pages[0]
    if 'trap' in p0:
        doc['problems'] = ['the token traps the endpoint: %s' % p0['trap'][:200]]
        return 'violation', doc
    known_tip = 1 <= cand['token_tip'] <= n
    if 'err' in p0:
        if known_tip or 'UnknownTipBlockHash' not in p0['err']:
            doc['problems'] = ['token with %s tip answered %s' % ('a known' if known_tip else 'an unknown', p0['err'][:120])]
            return 'violation', doc
        return 'not-reproduced', doc
    if not known_tip:
        doc['problems'] = ['token naming an unknown tip was answered']
        return 'violation', doc
    view = ledger_keys(desc, cand['token_tip'], cand['address'])
    got = [(u[0], u[1]) for u in p0['utxos']]
    sh_native = p0.get('stable_height', 0)
    probs = []
    if len(got) > (cand.get('limit') or 1):
        probs.append('more than limit elements')
    if any(g not in view for g in got) or len(set(got)) != len(got):
        probs.append('answer %s is not within the UTXO set %s of tip %s' % (got, view, cand['token_tip']))
    if any(u[3] > sh_native + rel for u in p0['utxos']):
        probs.append('element above the offset height %s returned: %s' % (sh_native + rel, p0['utxos']))
    if p0.get('tip') != cand['token_tip']:
        probs.append('answer names tip %s, token named %s' % (p0.get('tip'), cand['token_tip']))
    if probs:
        doc['problems'] = probs
        return 'violation', doc
    return 'not-reproduced', doc


def native_jobs(tier):
    """pagination schedules that are always run through the real endpoints: the wide transaction across a stabilisation with
    page size 1 (hook) and a 1300-output transaction with the real page size"""
    out = []
    chain = [1, 2, 3, 4, 5, 6]
    for pa in ([4] * 9, [4, 4, 6], [4, 4, 4, 6], [3, 5], [2, 2, 7]):
        out.append(((chain, {2: [HL.WIDE]}), 3, 'A', 1, 0, pa, None))
    big = pool_json()
    big[str(HL.WIDE)] = [[[1, 1]], ['A'] * 1300]
    for pa in ([4, 6], [4, 4], [3, 7]):
        out.append(((chain, {2: [HL.WIDE]}), 3, 'A', None, 0, pa, big))
    for desc in HL.HANDCRAFTED:
        out.append((desc, 2, 'A', 1, 0, [2, 3], None))
        out.append((desc, 1, 'B', 2, 1, [2, 2, 3], None))
    return out


def translator_validation(rep, cands, tier):
    n = 0
    for desc, thr, addr, limit, minconf, pa, pool in native_jobs(tier):
        res = native_pages(desc, thr, addr, limit, minconf, pa, pool)
        probs = judge_native(desc, thr, addr, res, minconf, limit, pool)
        if probs:
            cands.add(kernel='n', role='native-pagination', model=None, native=True, history=[desc[0], {str(k): v for k, v in desc[1].items()}], threshold=thr, address=addr,
                      limit=limit, min_confirmations=minconf, pages_at=pa, problems=probs, wide=pool is not None)
        else:
            n += 1
    # malformed blobs through the real endpoint
    blobs = [[], [0], [7] * 71, [7] * 73, [255] * 72, [0] * 72, list(range(72))]
    res = C.run_native([dict(ops=[dict(op='init', network='regtest')] + [dict(op='utxos_page_blob', blob=b) for b in blobs])], tag='c06b')[0]
    for b, r in zip(blobs, res[1:]):
        bad = bool(r.get('trap')) or (len(b) != PAGE_LEN and 'MalformedPage' not in str(r.get('err'))) or (len(b) == PAGE_LEN and 'UnknownTipBlockHash' not in str(r.get('err')))
        if bad:
            cands.add(kernel='n', role='native-page-blob', model=None, native=True, blob=b, problems=[str(r)[:200]])
        else:
            n += 1
    rep.cov['traces_validated_against_impl'] += n


def main():
    global PROG
    tier = C.tier()
    rep = H.Report(PROP, tier)
    prog = PROG = H.load_program(['canister', 'types'])
    btc.load_dep_decls(prog)
    rep.cov['mir'] = dict(prog.info)
    r = C.rng()
    jobs = [('w', None)]
    lens = [0, 1, 35, 36, 71, 72, 73, 80] if tier == 'quick' else list(range(0, 81))
    jobs += [('b', ('decode', n)) for n in lens] + [('b', ('encode', 72))]
    chain = [1, 2, 3, 4, 5, 6]
    # the wide transaction (vout 1, 2, 256 to A) in block 2 of a chain, threshold 3: pages before / after block 2 becomes stable
    wide = [[4, 4, 6], [4, 4, 4, 6], [3, 5], [2, 2, 7]] + ([[4] * 9, [3, 3, 4, 5, 6, 7]] if tier != 'quick' else [])
    for pa in wide:
        jobs.append(('p', (chain, {2: [HL.WIDE]}, 3, 'A', 1, 0, tuple(pa))))
    jobs.append(('p', (chain, {2: [HL.WIDE]}, 3, 'A', 2, 0, (4, 6))))
    jobs.append(('p', (chain, {2: [HL.WIDE]}, 3, 'A', 1, 2, (4, 4, 6))))
    N = 3 if tier == 'quick' else 4
    per_shape = 2 if tier == 'quick' else 6
    hists = [(p, c) for p, c in HL.HANDCRAFTED]
    for parents in shapes_upto(N):
        if not parents:
            continue
        for h in HL.valid_histories(parents, r, per_shape):
            hists.append((h.parents, h.content))
    for parents, content in hists:
        n = len(parents) + 1
        for k in range(2 if tier == 'quick' else 5):
            first = r.randint(1, n)
            rest = sorted(r.randint(first, n) for _ in range(r.randint(0, 3)))
            jobs.append(('p', (parents, content, r.choice([1, 2, 2]), r.choice(HL.ADDRS), r.choice([1, 1, 2]), r.choice([0, 0, 1, 2]), tuple([first] + rest))))
        if tier != 'quick' or len(parents) <= 2:
            jobs.append(('t', (parents, content, r.choice(HL.ADDRS))))
    rep.cov['bounds'] = dict(page_blob_lengths=lens, histories=len(hists), tree_blocks=N, page_size='1 or 2 in kernel p (the 1000 of the endpoint is decided in kernel w and run natively)',
                             schedules='first request after a sampled arrival step, following requests after sampled later steps, remaining pages on the final state (VERIF_SEED); %d fixed schedules around the stabilisation' % (len(wide) + 2) + ' of a block holding outputs with vout 1, 2, 256',
                             threshold='1, 2 or 3, difficulty 1',
                             outside='upgrades between pages (C09); page requests while an ingestion is paused (C08 decides that readers are unaffected); histories outside the sample')
    rep.cov['functions_encoded'] = ['Page::{to_bytes,from_bytes}', 'OutPoint::{to_bytes,from_bytes}', 'get_utxos_private', 'get_utxos_internal', 'get_utxos_from_chain', 'get_stability_count',
                                    'unstable_blocks::{get_main_chain,get_chain_with_tip,push,pop}', 'BlockTree::get_chain_with_tip', 'AddressUtxoSet::{new,apply_block,into_iter}', 'MultiIter::next',
                                    'UtxoSet::{get_address_outpoints,get_utxo,ingest_block,...}', 'Utxo::cmp', 'state::ingest_stable_blocks_into_utxoset']
    rep.cov['stubs'] = btc.stub_docs(HL.STUBS) + ['ledger model (mirsym/ledger.py; address index ordered by the key bytes: vout little-endian)', 'page token at struct level in kernels p/t (byte layout: kernel b)',
                                                 'address text parser -> the address (C05 decides its errors)']
    rep.assumptions = ['blocks are transaction-valid on their own chain', 'amounts symbolic (zero-valued outputs included)', 'follow-up requests carry the next_page of the previous response unchanged']
    cands = Cands()
    for part in parallel(jobs, worker):
        merge_partial(rep, cands, part)
    translator_validation(rep, cands, tier)
    settle(rep, PROP, cands, confirm, H.load_known(PROP), cap=4, describe=lambda d: str(d.get('problems'))[:400])
    return rep.finish()


if __name__ == '__main__':
    C.run_check(main)
