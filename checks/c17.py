#!/usr/bin/env python3
"""C17 - the watchdog changes API access only on a quorum of agreeing explorers.

Kernel (MIR of the watchdog crate, regenerated from /repo): health::compare + api_access::calculate_target (with
median, calculate_height_target, Config::{for_target, get_blocks_behind_threshold, get_blocks_ahead_threshold}) for
every success/failure pattern of up to K explorer results with symbolic heights, canister height symbolic or unknown,
each of the five target configurations.  The decision must equal the statement's rule, which is a function of the
multiset of fetched heights only (so it is invariant under any reordering of the explorers).
Storage kernel: storage::insert_block_info / get_block_info / health_status over two fetch rounds: a failed fetch in the
later round overwrites the provider's earlier height (nothing stale is reused).
"""
import os, sys, time, json, itertools
import z3
sys.path.insert(0, os.path.dirname(os.path.dirname(os.path.abspath(__file__))))
from checks import common as C
from checks.treelib import *   # noqa: F401,F403
from mirsym.models_coll import MapV
from mirsym.interp import MODELS, model, Native

PROP = 'C17'
PROG = None
TARGETS = ['BitcoinMainnet', 'BitcoinMainnetStaging', 'BitcoinTestnet', 'DogecoinMainnet', 'DogecoinMainnetStaging']
HMIN, HMAX = 1000, 1 << 40


def count_if(conds):
    return z3.Sum([z3.If(c, 1, 0) for c in conds]) if conds else z3.IntVal(0)


def median_term(hs):
    """median by order statistics (definition, not a sort): lower middle a and upper middle b, floor((a+b)/2)"""
    m = len(hs)
    med = z3.Int('med_%d' % m)
    cons = []
    if m % 2 == 1:
        k = (m + 1) // 2
        cons.append(z3.Or(*[z3.And(med == h, count_if([x <= h for x in hs]) >= k, count_if([x >= h for x in hs]) >= k) for h in hs]))
    else:
        a, b = z3.Int('med_a'), z3.Int('med_b')
        k = m // 2
        cons.append(z3.Or(*[z3.And(a == h, count_if([x <= h for x in hs]) >= k, count_if([x >= h for x in hs]) >= k + 1) for h in hs]))
        cons.append(z3.Or(*[z3.And(b == h, count_if([x <= h for x in hs]) >= k + 1, count_if([x >= h for x in hs]) >= k) for h in hs]))
        cons.append(med == (a + b) / 2)
    return med, cons


def oracle(hs, canister, behind, ahead, min_expl):
    """('none' | 'enable' | 'disable') as three formulas; hs: list of z3 terms of the successful fetches"""
    m = len(hs)
    if canister is None or m == 0:
        return dict(none=z3.BoolVal(True), enable=z3.BoolVal(False), disable=z3.BoolVal(False)), []
    med, cons = median_term(hs)
    within = count_if([z3.And(h >= med - behind, h <= med + ahead) for h in hs])
    quorum = z3.And(z3.IntVal(m) >= min_expl, within >= min_expl)
    inband = z3.And(canister >= med - behind, canister <= med + ahead)
    return dict(none=z3.Not(quorum), enable=z3.And(quorum, inband), disable=z3.And(quorum, z3.Not(inband))), cons


def mk_blockinfo(prog, i, h):
    return H.mk_struct(prog, 'fetch::BlockInfo', provider=StrV('explorer_%d' % i), height=(some(h) if h is not None else none()))


def worker(job):
    target, pattern, has_canister = job
    prog = PROG
    rep = H.Report(PROP, 'quick')
    cands = Cands()
    st = Stats()
    seen = set()
    dcan = prog.src.find_adt(['config', 'Canister'])
    dflag = prog.src.find_adt(['ic_btc_interface', 'Flag'])
    dcfg = prog.src.find_adt(['config', 'Config'])

    def scenario(it):
        it.overrides['print'] = lambda it_, k, r, a: UNIT
        it.overrides['Canister::canister_principal'] = lambda it_, k, r, a: Opaque('principal')
        cfg = it.call('Config::for_target', [Agg('Canister', [], dcan.variant(TARGETS[target])[1][3])])
        g = lambda f: cfg.fields[dcfg.fields.index(f)].v.t
        behind, ahead, mine = g('blocks_behind_threshold'), g('blocks_ahead_threshold'), g('min_explorers')
        if not all(isinstance(x, int) for x in (behind, ahead, mine)):
            raise Unsupported('configuration thresholds are not constants')
        hs = []
        infos = []
        for i, present in enumerate(pattern):
            h = it.fresh('h%d' % i, 'u64', HMIN, HMAX) if present else None
            if h is not None:
                hs.append(h.t)
            infos.append(Cell(mk_blockinfo(prog, i, h)))
        can = it.fresh('canister_h', 'u64', 0, HMAX) if has_canister else None
        status = it.call('health::compare', [some(can) if has_canister else none(), VecV(infos), cfg])
        tgt = it.call('calculate_target', [status])
        if tgt.variant == 0:
            got = 'none'
        else:
            got = 'enable' if tgt.fields[0].v.variant == dflag.variant('Enabled')[1][3] else 'disable'
        seen.add(got)
        orc, cons = oracle(hs, can.t if has_canister else None, behind, ahead, mine)
        it.solver.push()
        for c in cons:
            it.solver.add(c)
        m = check_unsat(it, rep, z3.Not(orc[got]))
        if m is not None:
            cands.add(kernel='d', role='decision-differs-from-rule', model=m, target=target, got=got, heights=[(x if x is None else x) for x in
                      [(z3.Int('h%d' % i) if p else None) for i, p in enumerate(pattern)]], canister_height=(can.t if has_canister else None),
                      thresholds=dict(behind=behind, ahead=ahead, min_explorers=mine))
        # the definition of the median must be satisfiable on this path (vacuity guard for the oracle itself)
        if cons and not check_sat(it, rep, z3.BoolVal(True)):
            cands.add(kernel='d', role='oracle-unsatisfiable', model=None, vacuity=True, target=target)
        it.solver.pop()
        return got

    explore(prog, scenario, stats=st, on_panic=lambda it, e: cands.add(
        kernel='d', role='trap', model=it.model_ if it.feasible() else None, target=target, msg=str(e),
        heights=[(z3.Int('h%d' % i) if p else None) for i, p in enumerate(pattern)],
        canister_height=(z3.Int('canister_h') if has_canister else None)))
    rep.add_stats(st, 'd:compare+calculate_target')
    rep.cov['shapes'] += 1
    rep.cov.setdefault('outcomes', {})
    return (rep.cov, cands.items, rep.inconclusive, sorted(seen), job)


def kernel_storage(prog, rep, cands):
    """two rounds through the real storage functions: stale heights are never reused"""
    st = Stats()
    dcan = prog.src.find_adt(['config', 'Canister'])

    def scenario(it):
        it.overrides['print'] = lambda it_, k, r, a: UNIT
        data = Cell(Agg('RefCell', [Cell(MapV('HashMap'))]))
        height = Cell(Agg('RefCell', [Cell(none())]))
        class TlsKey(Native):
            def __init__(self, cell):
                self.cell = cell
        keys = {'BLOCK_INFO_DATA': data, 'CANISTER_HEIGHT': height}
        for k, c in keys.items():
            it.overrides[k] = (lambda cc: lambda it_: TlsKey(cc))(c)

        def local_with(it_, k, r, a):
            key = deref(a[0])
            return it_.call_value(a[1], [Ref(key.cell)])
        it.overrides['LocalKey::with'] = local_with
        names = ['p%d' % i for i in range(3)]
        cfg = H.mk_struct(prog, 'config::Config', network=Opaque('n'), blocks_behind_threshold=SInt(2, 'u64'), blocks_ahead_threshold=SInt(2, 'u64'),
                          min_explorers=SInt(2, 'u64'), canister=Agg('Canister', [], 0), canister_principal=Opaque('p'),
                          delay_before_first_fetch_sec=SInt(1, 'u64'), interval_between_fetches_sec=SInt(1, 'u64'),
                          explorers=VecV([Cell(StrV(n)) for n in names]), subnet_type=Opaque('s'))
        it.overrides['storage::get_config'] = it.overrides['get_config'] = lambda it_, k, r, a: cfg
        rounds = []
        from mirsym.models_std import LeafFuture, poll_once
        for rnd in range(2):
            hs = []
            infos = []
            for i, n in enumerate(names):
                okf = it.choose(2, 'fetch') == 0
                h = it.fresh('r%d_h%d' % (rnd, i), 'u64', HMIN, HMAX) if okf else None
                hs.append(h)
                infos.append(H.mk_struct(prog, 'fetch::BlockInfo', provider=StrV(n), height=(some(h) if h is not None else none())))
            can = it.fresh('r%d_c' % rnd, 'u64', 0, HMAX)
            # the real fetch round of lib.rs (fetch_block_height: join!, the insert loop, set_canister_height), with the
            # two fetch futures replaced by leaf futures delivering this round's results
            it.overrides['fetch::fetch_all_providers_data'] = it.overrides['fetch_all_providers_data'] = \
                (lambda vals: lambda it_, k, r, a: LeafFuture(lambda it2: VecV([Cell(v) for v in vals]), pending=0))(infos)
            it.overrides['fetch::fetch_canister_height'] = it.overrides['fetch_canister_height'] = \
                (lambda c: lambda it_, k, r, a: LeafFuture(lambda it2: some(c), pending=0))(can)
            co = Cell(it.call('fetch_block_height', []))
            for _ in range(4):
                st_, _v = poll_once(it, co)
                if st_ == 'ready':
                    break
            else:
                raise Unsupported('fetch_block_height does not complete')
            rounds.append((hs, can))
        status = it.call('health::health_status', [])
        tgt = it.call('calculate_target', [status])
        dflag = prog.src.find_adt(['ic_btc_interface', 'Flag'])
        got = 'none' if tgt.variant == 0 else ('enable' if tgt.fields[0].v.variant == dflag.variant('Enabled')[1][3] else 'disable')
        hs2, can2 = rounds[1]
        orc, cons = oracle([h.t for h in hs2 if h is not None], can2.t, 2, 2, 2)
        it.solver.push()
        for c in cons:
            it.solver.add(c)
        m = check_unsat(it, rep, z3.Not(orc[got]))
        it.solver.pop()
        if m is not None:
            cands.add(kernel='s', role='decision-uses-data-of-an-earlier-round', model=m, got=got,
                      round1=[(h.t if h is not None else None) for h in rounds[0][0]], round2=[(h.t if h is not None else None) for h in hs2],
                      canister=[rounds[0][1].t, can2.t])
        return got

    res = explore(prog, scenario, stats=st, on_panic=lambda it, e: cands.add(kernel='s', role='trap', model=None, msg=str(e)))
    rep.add_stats(st, 's:storage-rounds')
    if {'none', 'enable', 'disable'} <= set(res):
        rep.cov['witnesses'] += 1
    rep.sample(dict(kernel='s', rounds=2, providers=3, outcomes=sorted(set(res))))


def native_decide(items):
    scen = [dict(ops=[dict(op='watchdog_decision', target=t, canister_height=c, heights=hs)]) for t, c, hs in items]
    return [r[0] for r in C.run_native(scen, tag='c17')]


def conc_rule(hs, can, behind, ahead, mine):
    hs = sorted(h for h in hs if h is not None)
    if can is None or not hs or len(hs) < mine:
        return 'none'
    m = len(hs)
    med = hs[m // 2] if m % 2 else (hs[m // 2 - 1] + hs[m // 2]) // 2
    if sum(1 for h in hs if med - behind <= h <= med + ahead) < mine:
        return 'none'
    return 'enable' if med - behind <= can <= med + ahead else 'disable'


THR = {0: (2, 2, 3), 1: (2, 2, 3), 2: (1000, 1000, 1), 3: (4, 4, 2), 4: (4, 4, 2)}


def confirm(cand, known):
    doc = dict(property=PROP, role=cand['role'], summary={k: v for k, v in cand.items() if k not in ('shape',)}, problems=[])
    if cand['kernel'] == 'd' and cand.get('has_model'):
        hs = cand['heights']
        can = cand.get('canister_height')
        got = native_decide([(cand['target'], can, hs)])[0]
        b, a, mn = THR[cand['target']]
        exp = conc_rule(hs, can, b, a, mn)
        doc['native'] = got
        doc['expected'] = exp
        if got != exp:
            doc['problems'].append('native decision %s, rule %s for heights %s canister %s target %s' % (got, exp, hs, can, TARGETS[cand['target']]))
            return 'violation', doc
        return 'not-reproduced', doc
    doc['problems'].append(cand['role'])
    return 'violation', doc


def translator_validation(prog, rep, count):
    r = C.rng()
    items, exps = [], []
    for _ in range(count):
        t = r.randrange(5)
        k = r.randint(0, 6)
        base = r.randint(2000, 900000)
        hs = [None if r.random() < 0.25 else base + r.choice([0, 0, 1, -1, 2, -2, 3, 5, -4, 100, -1000, 1001]) for _ in range(k)]
        can = None if r.random() < 0.15 else base + r.choice([0, 1, -1, 2, -2, 3, -3, 4, -4, 5, -5, 999, 1000, 1001, -1001])
        items.append((t, can, hs))
        b, a, mn = THR[t]
        exps.append(conc_rule(hs, can, b, a, mn))
    for (t, can, hs), exp, got in zip(items, exps, native_decide(items)):
        if got == exp:
            rep.cov['traces_validated_against_impl'] += 1
        else:
            rep.inconclusive = 'native watchdog decision differs from the rule the MIR satisfied: target=%s canister=%s heights=%s native=%s rule=%s' % (
                TARGETS[t], can, hs, got, exp)


def main():
    global PROG
    tier = C.tier()
    rep = H.Report(PROP, tier)
    K = 5 if tier == 'quick' else 7
    prog = PROG = H.load_program(['watchdog'], decl_crates=('watchdog', 'interface'))
    rep.cov['mir'] = dict(prog.info)
    rep.cov['bounds'] = dict(explorer_results='every success/failure pattern of up to %d results' % K, heights='symbolic in [1000, 2^40)',
                             canister_height='symbolic in [0, 2^40) or unknown', targets=TARGETS,
                             outside='heights below the configured thresholds (saturating arithmetic near 0); more than %d explorers; the HTTP fetch itself' % K)
    rep.cov['functions_encoded'] = ['health::compare', 'health::calculate_height_target', 'health::median', 'health::health_status',
                                    'api_access::calculate_target', 'Config::{for_target,get_blocks_behind_threshold,get_blocks_ahead_threshold}',
                                    'Canister::{network,canister_principal,subnet_type}', 'storage::{insert_block_info,get_block_info,set_canister_height,get_canister_height}', 'fetch_block_height (coroutine poll fn incl. the futures::join! expansion)']
    rep.cov['stubs'] = ['slice::sort -> forking insertion sort (every order consistent with the keys)', 'thread_local LocalKey::with -> closure on a model cell',
                        'HashMap -> ordered association list', 'print -> no-op', 'Canister::canister_principal -> opaque (text decoding of a constant)', 'storage::get_config -> scenario config (kernel s)', 'fetch_all_providers_data / fetch_canister_height -> leaf futures delivering the round results; futures-util MaybeDone / poll_fn models']
    rep.assumptions = ['median of an even number of heights = floor of the mean of the two middle values (the reading the code documents)',
                       'the decision rule is symmetric in the explorer results by construction of the oracle, hence order invariance']
    cands = Cands()
    jobs = []
    for t in range(5):
        for k in range(0, K + 1):
            for pattern in itertools.product([1, 0], repeat=k):
                if k >= 5 and sum(pattern) < k - 2:
                    continue        # long patterns with many failures repeat shorter ones
                for hc in (1, 0):
                    if not hc and sum(pattern) > 2:
                        continue
                    jobs.append((t, pattern, hc))
    jobs.sort(key=lambda j: -sum(j[1]))
    outcomes = {}
    for part in parallel(jobs, worker):
        merge_partial(rep, cands, part[:3])
        outcomes.setdefault(part[4][0], set()).update(part[3])
    for t in range(5):
        if outcomes.get(t) == {'none', 'enable', 'disable'}:
            rep.cov['witnesses'] += 1
        else:
            rep.inconclusive = 'vacuity: target %s outcomes %s' % (TARGETS[t], outcomes.get(t))
    rep.cov['jobs'] = len(jobs)
    rep.sample(dict(kernel='d', target=TARGETS[0], pattern=[1, 1, 0, 1], canister='symbolic', outcomes=sorted(outcomes.get(0, []))))
    kernel_storage(prog, rep, cands)
    translator_validation(prog, rep, 200 if tier == 'quick' else 1000)
    settle(rep, PROP, cands, confirm, H.load_known(PROP), describe=lambda d: str(d.get('problems'))[:300])
    return rep.finish()


if __name__ == '__main__':
    C.run_check(main)
