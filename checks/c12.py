#!/usr/bin/env python3
"""C12 - only structurally sound blocks pass: coinbase first, merkle root, no duplicates.

Kernel (MIR of ic-btc-validation, regenerated from /repo): block::validate_block + ensure_unique_transactions on blocks
of k <= K transactions whose identities (normalised txids) are symbolic integers (N injective), `is_coinbase` symbolic
per transaction and `check_merkle_root` symbolic:
   Ok  <=>  k >= 1 and the first transaction is a coinbase and the merkle root matches and all identities are distinct;
   the error reported is the first failing rule in the documented order.
Native side (hook verif_validate_block_structure): real blocks, including the CVE-2012-2459 mutation (a trailing
transaction duplicated so that the merkle root is unchanged), must be rejected / accepted as the rule says.
"""
import os, sys, time, json, itertools
import z3
sys.path.insert(0, os.path.dirname(os.path.dirname(os.path.abspath(__file__))))
from checks import common as C
from checks.treelib import *   # noqa: F401,F403

PROP = 'C12'
PROG = None
ERRS = ['NoTransactions', 'InvalidCoinbase', 'InvalidMerkleRoot', 'InvalidBlockHeader', 'DuplicateTransactions']


def worker(k):
    prog = PROG
    rep = H.Report(PROP, 'quick')
    cands = Cands()
    st = Stats()
    seen = set()
    derr = prog.src.find_adt(['block', 'ValidateBlockError'])
    dblk = prog.src.find_adt(['bitcoin', 'blockdata', 'block', 'Block'])

    def scenario(it):
        # three identity notions of a transaction: wtxid (whole serialisation incl. witness), txid (without witness: what the
        # merkle tree commits to and what "share an id" means), ntxid (additionally without the input scripts).
        # equal wtxid => equal txid => equal ntxid; nothing else is assumed
        ids = [it.fresh('id%d' % i, 'u64', 0, 1 << 40) for i in range(k)]          # txid
        nids = [it.fresh('nid%d' % i, 'u64', 0, 1 << 40) for i in range(k)]
        wids = [it.fresh('wid%d' % i, 'u64', 0, 1 << 40) for i in range(k)]
        for i in range(k):
            for j in range(i + 1, k):
                it.assume(z3.Implies(wids[i].t == wids[j].t, ids[i].t == ids[j].t))
                it.assume(z3.Implies(ids[i].t == ids[j].t, nids[i].t == nids[j].t))
        cb = [it.fresh_bool('cb%d' % i) for i in range(k)]
        merkle = it.fresh_bool('merkle_ok')
        txs = VecV([Cell(Agg('Transaction', [Cell(ids[i]), Cell(cb[i]), Cell(nids[i]), Cell(wids[i])])) for i in range(k)])
        vals = dict(header=Opaque('header'), txdata=txs)
        block = Agg('Block', [Cell(vals[f]) for f in dblk.fields])
        it.overrides['Transaction::is_coinbase'] = lambda it_, kk, r, a: deref(a[0]).fields[1].v
        it.overrides['Transaction::compute_ntxid'] = lambda it_, kk, r, a: Agg('Ntxid', [Cell(deref(a[0]).fields[2].v)])
        it.overrides['Transaction::compute_txid'] = it.overrides['Transaction::txid'] = lambda it_, kk, r, a: Agg('Txid', [Cell(deref(a[0]).fields[0].v)])
        it.overrides['Transaction::compute_wtxid'] = it.overrides['Transaction::wtxid'] = lambda it_, kk, r, a: Agg('Wtxid', [Cell(deref(a[0]).fields[3].v)])
        it.overrides['bitcoin::Block::check_merkle_root'] = it.overrides['Block::check_merkle_root'] = lambda it_, kk, r, a: merkle
        r = it.call('block::validate_block', [Ref(Cell(block))])
        distinct = z3.And(*[ids[i].t != ids[j].t for i in range(k) for j in range(i + 1, k)]) if k > 1 else z3.BoolVal(True)
        ndistinct = z3.And(*[nids[i].t != nids[j].t for i in range(k) for j in range(i + 1, k)]) if k > 1 else z3.BoolVal(True)
        nonempty = z3.BoolVal(k >= 1)
        cb0 = cb[0] if k else z3.BoolVal(False)
        good = z3.And(nonempty, cb0, merkle, distinct)
        extra = dict(ids=[x.t for x in ids], nids=[x.t for x in nids], wids=[x.t for x in wids], coinbase=cb, merkle_ok=merkle)
        if r.variant == 0:
            seen.add('Ok')
            m = check_unsat(it, rep, z3.Not(good))
            if m is not None:
                cands.add(kernel='v', role='accepts-unsound-block', model=m, k=k, **extra)
            return
        e = r.fields[0].v
        name = [v[0] for v in derr.variants if v[3] == e.variant][0]
        seen.add(name)
        # a block is rejected as a duplicate only if two transactions share (at least) the normalised id; any block whose
        # normalised ids are pairwise distinct and that passes the other rules must be accepted
        first_failing = z3.If(z3.Not(nonempty), 0, z3.If(z3.Not(cb0), 1, z3.If(z3.Not(merkle), 2, z3.If(z3.Not(distinct), 4, z3.If(z3.Not(ndistinct), 4, -1)))))
        m = check_unsat(it, rep, first_failing != ERRS.index(name))
        if m is not None:
            cands.add(kernel='v', role='rejects-sound-block-or-wrong-error', model=m, k=k, error=name, **extra)

    explore(prog, scenario, stats=st, on_panic=lambda it, e: cands.add(kernel='v', role='trap', model=it.model_ if it.feasible() else None, k=k, msg=str(e)))
    rep.add_stats(st, 'v:validate_block')
    rep.cov['shapes'] += 1
    want = {'NoTransactions'} if k == 0 else ({'Ok', 'InvalidCoinbase', 'InvalidMerkleRoot'} | ({'DuplicateTransactions'} if k > 1 else set()))
    if want <= seen:
        rep.cov['witnesses'] += 1
    else:
        rep.inconclusive = 'vacuity: k=%d outcomes %s' % (k, sorted(seen))
    rep.sample(dict(k=k, outcomes=sorted(seen), paths=st.paths))
    return (rep.cov, cands.items, rep.inconclusive)


def native_blocks(specs):
    scen = [dict(ops=[dict(op='validate_block_structure', **s)]) for s in specs]
    return [r[0] for r in C.run_native(scen, tag='c12')]


def conc_rule(spec):
    txs = spec['txs']           # list of tx labels; label 0 = coinbase; equal labels = the same transaction
    if not txs:
        return 'NoTransactions'
    if txs[0] != 0:
        return 'InvalidCoinbase'
    if spec.get('merkle') == 'wrong':
        return 'InvalidMerkleRoot'
    if spec.get('merkle') == 'of_prefix':
        pass     # header commits to a prefix whose root equals the root of the full (mutated) list
    if len(set(txs)) != len(txs):
        return 'DuplicateTransactions'
    return 'Ok'


def translator_validation(rep, count):
    r = C.rng()
    specs = []
    for _ in range(count):
        k = r.randint(0, 7)
        txs = [0] + [r.randint(1, 4) for _ in range(k - 1)] if k else []
        if k and r.random() < 0.15:
            txs[0] = r.randint(1, 4)
        specs.append(dict(txs=txs, merkle=r.choice(['ok', 'ok', 'ok', 'wrong'])))
    # CVE-2012-2459: duplicate the tail so that the merkle root is preserved; header commits to the unmutated list
    for base in ([0, 1, 2], [0, 1, 2, 3, 4], [0, 1, 2, 3, 4, 5], [0, 1, 2, 3, 4, 5, 6], [0]):
        n = len(base)
        if n % 2 == 1 and n > 1:
            specs.append(dict(txs=base + [base[-1]], merkle='of_prefix', prefix=n))
        if n == 6:
            specs.append(dict(txs=base + base[4:6], merkle='of_prefix', prefix=6))
        if n == 5:
            # [a b c d e] -> level: (ab)(cd)(ee) -> duplicating the pair (e e) at tx level: a b c d e e e e
            specs.append(dict(txs=base + [4, 4, 4], merkle='of_prefix', prefix=5))
    # the CVE-2012-2459 mutation with a malleated copy: the repeated transaction carries other witness bytes (same txid, other wtxid)
    specs.append(dict(txs=[0, 1, 2, 2], witness=[0, 0, 0, 1], merkle='of_prefix', prefix=3))
    specs.append(dict(txs=[0, 1, 2, 3, 4, 4], witness=[0, 0, 0, 0, 1, 2], merkle='of_prefix', prefix=5))
    specs.append(dict(txs=[0, 1, 2], witness=[0, 1, 2], merkle='ok'))          # segwit transactions, no duplicate: valid
    res = native_blocks(specs)
    for s, got in zip(specs, res):
        exp = conc_rule(s)
        if s.get('merkle') == 'of_prefix' and got == 'InvalidMerkleRoot':
            rep.inconclusive = 'native: merkle-preserving mutation construction is wrong: %s' % s
        elif got == exp:
            rep.cov['traces_validated_against_impl'] += 1
            if s.get('merkle') == 'of_prefix':
                rep.cov['cve_2012_2459_mutations_rejected_natively'] = rep.cov.get('cve_2012_2459_mutations_rejected_natively', 0) + 1
        else:
            rep.violations.append(C.save_replay(PROP, 'native-structure', dict(property=PROP, spec=s, native=got, rule=exp)))
            return


def confirm(cand, known):
    doc = dict(property=PROP, role=cand['role'], summary={k: v for k, v in cand.items() if k != 'shape'}, problems=[])
    if not cand.get('has_model'):
        doc['problems'].append(cand['role'])
        return 'violation', doc
    k = cand['k']
    ids = cand['ids']
    cbs = cand['coinbase']
    # concrete block with the same equalities: label 0 is the coinbase
    labels = []
    for i in range(k):
        same = [j for j in range(i) if ids[j] == ids[i]]
        if same:
            labels.append(labels[same[0]])
        else:
            labels.append(0 if (cbs[i] in (True, 'True') and 0 not in labels) else (max(labels + [0]) + 1))
    # transactions with the same txid but different wtxid: the same transaction with another witness
    wids = cand.get('wids') or [0] * k
    wit = []
    for i in range(k):
        same_tx = [j for j in range(i) if ids[j] == ids[i]]
        if not same_tx:
            wit.append(0)
        else:
            same_w = [j for j in same_tx if wids[j] == wids[i]]
            wit.append(wit[same_w[0]] if same_w else max(wit) + 1)
    spec = dict(txs=labels, merkle='ok' if cand['merkle_ok'] in (True, 'True') else 'wrong')
    if any(wit):
        spec['witness'] = wit
    got = native_blocks([spec])[0]
    exp = conc_rule(spec)
    doc['native'] = got
    doc['spec'] = spec
    if got != exp:
        doc['problems'].append('native %s, rule %s for %s' % (got, exp, spec))
        return 'violation', doc
    return 'not-reproduced', doc


def main():
    global PROG
    tier = C.tier()
    rep = H.Report(PROP, tier)
    K = 6 if tier == 'quick' else 8
    prog = PROG = H.load_program(['validation'], decl_crates=('validation',))
    btc.load_dep_decls(prog)
    rep.cov['mir'] = dict(prog.info)
    rep.cov['bounds'] = dict(transactions='0..%d per block' % K, identities='symbolic integers: wtxid / txid / ntxid per transaction (equal wtxid => equal txid => equal ntxid)',
                             outside='that every merkle-preserving mutation repeats a transaction (a fact about the merkle construction of the dependency); '
                                     'the header part (C11); blocks with more transactions')
    rep.cov['functions_encoded'] = ['block::validate_block', 'block::ensure_unique_transactions']
    rep.cov['stubs'] = ['Transaction::is_coinbase -> symbolic bool per transaction', 'Transaction::{compute_ntxid, compute_txid, compute_wtxid} -> three symbolic identities per transaction with equal wtxid => equal txid => equal ntxid',
                        'Block::check_merkle_root -> symbolic bool', 'BTreeSet -> ordered association list (forks on symbolic key comparisons)']
    rep.assumptions = ['std models faithful', '"share an id" is decided on the normalised txid the code uses (two transactions with equal txid have equal ntxid)']
    cands = Cands()
    for part in parallel(list(range(0, K + 1))[::-1], worker):
        merge_partial(rep, cands, part)
    translator_validation(rep, 80 if tier == 'quick' else 300)
    settle(rep, PROP, cands, confirm, H.load_known(PROP), describe=lambda d: str(d.get('problems'))[:300])
    return rep.finish()


if __name__ == '__main__':
    C.run_check(main)
