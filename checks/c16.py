#!/usr/bin/env python3
"""C16 - cycles charged follow the published formula and never exceed the maximum.

Kernels (MIR of ic-btc-canister, ic-btc-interface and ic-cdk-bitcoin-canister, regenerated from /repo):
  u  get_utxos_private(req, charge) / get_utxos / get_utxos_query
  h  get_block_headers
  b  get_balance / get_balance_query
  f  get_current_fee_percentiles
     with the whole fee table, the cycles attached to the call, the instruction count and the outcome of the inner
     computation (Ok / request-level Err) symbolic; charge_cycles and verify_has_enough_cycles are the real bodies over a
     model of the IC cycles API (msg_cycles_available / msg_cycles_accept)
  c  client side: cost_* of ic-cdk-bitcoin-canister >= the canister's default maximum (Fees::{mainnet,testnet,default})
     for every network spelling, and cost_send_transaction(len) >= base + per_byte*len for symbolic len
send_transaction's own charge is decided by C19's coroutine kernel (same cycles model).
"""
import os, sys, time, json
import z3
sys.path.insert(0, os.path.dirname(os.path.dirname(os.path.abspath(__file__))))
from checks import common as C
from checks.treelib import *   # noqa: F401,F403

PROP = 'C16'
STUBS = ['print', 'perf_counter']


class Cycles:
    """model of the IC cycles API for one call: `avail` attached, accept(max) takes min(max, what is left)"""
    def __init__(self, it):
        self.avail0 = it.fresh('avail', 'u128', 0, 1 << 120).t
        self.left = self.avail0
        self.accepted = []
        it.overrides['msg_cycles_available'] = it.overrides['runtime::msg_cycles_available'] = self.available
        it.overrides['msg_cycles_accept'] = it.overrides['runtime::msg_cycles_accept'] = self.accept

    def available(self, it, k, r, a):
        return SInt(self.left, 'u128')

    def accept(self, it, k, r, a):
        mx = a[0].t
        got = z3.If(zterm(mx) <= zterm(self.left), zterm(mx), zterm(self.left))
        self.left = self.left - got
        self.accepted.append(got)
        return SInt(got, 'u128')

    def total(self):
        t = z3.IntVal(0)
        for x in self.accepted:
            t = t + x
        return t


FEE_FIELDS = None


def mk_fees(it, prog):
    global FEE_FIELDS
    d = prog.src.find_adt(['ic_btc_interface', 'Fees'])
    FEE_FIELDS = d.fields
    vals = {f: it.fresh('fee_' + f, 'u128', 0, (1 << 64) - 1 if ('per_ten' in f or 'per_byte' in f) else 1 << 100) for f in d.fields}
    return Agg('Fees', [Cell(vals[f]) for f in d.fields]), {k: v.t for k, v in vals.items()}


def base_state(it, prog):
    fees, fv = mk_fees(it, prog)
    d = prog.src.find_adt(['GenericState'])
    vals = dict(fees=fees)
    state = Agg('GenericState', [Cell(vals.get(f, Opaque(f))) for f in d.fields])
    sref = Ref(Cell(state))
    it.overrides['with_state'] = lambda it_, k, r, a: it_.call_value(a[0], [sref])
    it.overrides['with_state_mut'] = lambda it_, k, r, a: UNIT      # metrics only (not observable in C16)
    return state, fv


def ins_stats(it, prog, sname, fields):
    ins = it.fresh('ins_total', 'u64', 0, (1 << 63))
    return H.mk_struct(prog, sname, **{f: (ins if f == 'ins_total' else SInt(0, 'u64')) for f in fields}), ins.t


def judge(it, rep, cands, kernel, cyc, outcome, expected_total, fv, maximum, extra_ok=None, **info):
    """outcome: 'ok' | 'err' | 'trap'"""
    tot = cyc.total()
    mdl = None
    if outcome == 'trap':
        # refused: nothing may have been charged if the call carried less than the maximum
        m = check_unsat(it, rep, z3.And(cyc.avail0 < maximum, tot != 0))
        if m is not None:
            cands.add(kernel=kernel, role='charged-although-refused', model=m, fees={k: v for k, v in fv.items()}, avail=cyc.avail0,
                      accepted=tot, **info)
            return
        m = check_unsat(it, rep, cyc.avail0 >= maximum)
        if m is not None:
            cands.add(kernel=kernel, role='traps-although-maximum-attached', model=m, fees=dict(fv), avail=cyc.avail0, **info)
        return
    m = check_unsat(it, rep, tot != expected_total)
    if m is not None:
        cands.add(kernel=kernel, role='amount-differs-from-formula-%s' % outcome, model=m, fees=dict(fv), avail=cyc.avail0, accepted=tot,
                  expected=expected_total, **info)
        return
    m = check_unsat(it, rep, tot > maximum)
    if m is not None:
        cands.add(kernel=kernel, role='exceeds-maximum', model=m, fees=dict(fv), avail=cyc.avail0, accepted=tot, **info)
        return
    m = check_unsat(it, rep, cyc.avail0 < maximum)
    if m is not None:
        cands.add(kernel=kernel, role='answered-with-less-than-maximum-attached', model=m, fees=dict(fv), avail=cyc.avail0, **info)


def zmin(a, b):
    return z3.If(a <= b, a, b)


def kernel_metered(prog, rep, cands, which):
    """get_utxos / get_block_headers: base + min(ins/10 * rate, maximum - base)"""
    st = Stats()
    seen = set()
    pre = 'get_utxos' if which == 'u' else 'get_block_headers'

    def scenario(it):
        btc.install(it, STUBS)
        state, fv = base_state(it, prog)
        base, rate, mx = fv[pre + '_base'], fv[pre + '_cycles_per_ten_instructions'], fv[pre + '_maximum']
        it.assume(base <= mx)                       # tables with maximum < base: reported separately (outside the claim)
        cyc = Cycles(it)
        variant = it.choose(2 if which == 'h' else 3, 'variant')     # 0: update, 1: inner Err, 2: query
        inner_err = it.choose(2, 'inner')
        ins_t = [None]

        def inner(it_, k, r, a):
            if inner_err:
                e = H.mk_variant(prog, 'ic_btc_interface::GetUtxosError', 'MalformedAddress') if which == 'u' else \
                    H.mk_variant(prog, 'ic_btc_interface::GetBlockHeadersError', 'StartHeightDoesNotExist', requested=SInt(1, 'u32'), chain_height=SInt(0, 'u32'))
                return err(e)
            s, ins_t[0] = ins_stats(it_, prog, pre + '::Stats',
                                    prog.src.find_adt([pre, 'Stats']).fields)
            return ok(tup(Opaque('response'), s))
        it.overrides['get_utxos_internal' if which == 'u' else 'get_block_headers_internal'] = inner
        try:
            if which == 'u':
                req = H.mk_struct(prog, 'types::GetUtxosRequest', address=StrV('a'), filter=none())
                fn = ['get_utxos::get_utxos', 'get_utxos::get_utxos', 'get_utxos::get_utxos_query'][variant]
                r = it.call(fn, [req])
            else:
                req = H.mk_struct(prog, 'ic_btc_interface::GetBlockHeadersRequest', start_height=SInt(0, 'u32'), end_height=none(),
                                  network=Opaque('net'))
                r = it.call('get_block_headers::get_block_headers', [req])
            outcome = 'ok' if r.variant == 0 else 'err'
        except Panic as e:
            outcome = 'trap'
        query = (which == 'u' and variant == 2)
        seen.add((outcome, query, inner_err))
        if query:
            m = check_unsat(it, rep, cyc.total() != 0)
            if m is not None:
                cands.add(kernel=which, role='query-variant-charges', model=m, fees=dict(fv), avail=cyc.avail0)
            if outcome == 'trap':
                cands.add(kernel=which, role='query-variant-traps', model=it.model_ if it.feasible() else None, fees=dict(fv), avail=cyc.avail0)
            return
        if outcome == 'ok':
            from mirsym.interp import sym_mul
            exp = base + zmin(sym_mul(ins_t[0] / 10, rate), mx - base)
        else:
            exp = base
        judge(it, rep, cands, which, cyc, outcome, exp, fv, mx, endpoint=pre, ins=ins_t[0] if ins_t[0] is not None else 0)

    explore(prog, scenario, stats=st)
    need = {('ok', False, 0), ('err', False, 1), ('trap', False, 0)}
    if need <= seen:
        rep.cov['witnesses'] += 1
    else:
        rep.inconclusive = 'vacuity: %s outcomes seen %s' % (pre, sorted(seen))
    rep.add_stats(st, '%s:%s' % (which, pre))
    rep.sample(dict(kernel=which, endpoint=pre, outcomes=sorted(map(str, seen))))


def kernel_flat(prog, rep, cands, which):
    st = Stats()
    seen = set()
    name = 'get_balance' if which == 'b' else 'get_current_fee_percentiles'

    def scenario(it):
        btc.install(it, STUBS)
        state, fv = base_state(it, prog)
        flat, mx = fv[name], fv[name + '_maximum']
        cyc = Cycles(it)
        variant = it.choose(2 if which == 'b' else 1, 'variant')
        inner_err = it.choose(2, 'inner') if which == 'b' else 0
        if which == 'b':
            it.overrides['get_balance_private'] = lambda it_, k, r, a: (
                err(H.mk_variant(prog, 'ic_btc_interface::GetBalanceError', 'MalformedAddress')) if inner_err else ok(SInt(5, 'u64')))
        else:
            it.overrides['get_current_fee_percentiles_with_number_of_transactions'] = lambda it_, k, r, a: VecV()
            it.overrides['with_state_mut'] = lambda it_, k, r, a: (it_.call_value(a[0], [Ref(Cell(state))]) if 'Vec' in r else UNIT)
        try:
            if which == 'b':
                req = H.mk_struct(prog, 'types::GetBalanceRequest', address=StrV('a'), min_confirmations=none())
                r = it.call(['get_balance::get_balance', 'get_balance::get_balance_query'][variant], [req])
                outcome = 'ok' if r.variant == 0 else 'err'
            else:
                r = it.call('fee_percentiles::get_current_fee_percentiles', [])
                outcome = 'ok'
        except Panic:
            outcome = 'trap'
        query = which == 'b' and variant == 1
        seen.add((outcome, query))
        if query:
            m = check_unsat(it, rep, cyc.total() != 0)
            if m is not None or outcome == 'trap':
                cands.add(kernel=which, role='query-variant-charges-or-traps', model=m, fees=dict(fv), avail=cyc.avail0)
            return
        # flat fee; the statement's "never exceed the maximum" needs flat <= maximum, which is a property of the table
        it.assume(flat <= mx)
        if not it.feasible():
            return
        judge(it, rep, cands, which, cyc, outcome, flat, fv, mx, endpoint=name)

    explore(prog, scenario, stats=st)
    if ('ok', False) in seen and ('trap', False) in seen:
        rep.cov['witnesses'] += 1
    else:
        rep.inconclusive = 'vacuity: %s outcomes seen %s' % (name, sorted(seen))
    rep.add_stats(st, '%s:%s' % (which, name))
    rep.sample(dict(kernel=which, endpoint=name, outcomes=sorted(map(str, seen))))


def kernel_underflow(prog, rep):
    """tables with maximum < base (outside the claim): what happens is reported, not judged"""
    out = {}
    for mode in ('dev', 'release'):
        def scenario(it):
            btc.install(it, STUBS)
            state, fv = base_state(it, prog)
            it.assume(fv['get_utxos_maximum'] < fv['get_utxos_base'])
            cyc = Cycles(it)
            it.overrides['get_utxos_internal'] = lambda it_, k, r, a: ok(tup(Opaque('r'), ins_stats(it_, prog, 'get_utxos::Stats', prog.src.find_adt(['get_utxos', 'Stats']).fields)[0]))
            req = H.mk_struct(prog, 'types::GetUtxosRequest', address=StrV('a'), filter=none())
            try:
                it.call('get_utxos::get_utxos', [req])
                return 'answers'
            except Panic as e:
                return 'traps'
        res = explore(prog, scenario, mode=mode)
        out[mode] = sorted(set(res))
    rep.cov['maximum_lt_base_reported'] = out


# ------------------------------------------------------------------------------------------- client side
def kernel_client(rep, cands):
    prog = H.load_program(['cdk', 'interface'], decl_crates=('interface', 'types', 'canister'))
    rep.cov['mir'].update(prog.info)
    st = Stats()
    dnet = prog.src.find_adt(['ic_btc_interface', 'NetworkInRequest'])
    dfees = prog.src.find_adt(['ic_btc_interface', 'Fees'])
    tables = {}
    it0 = Interp(prog)
    for nm in ('mainnet', 'testnet'):
        t = it0.call('Fees::%s' % nm, [])
        tables[nm] = {f: t.fields[i].v.t for i, f in enumerate(dfees.fields)}
    tables['regtest'] = {f: 0 for f in dfees.fields}       # State::new: Network::Regtest => Fees::default()
    rep.cov['default_fee_tables'] = {k: {f: int(v) for f, v in t.items()} for k, t in tables.items()}
    pairs = [('cost_get_utxos', 'GetUtxosRequest', 'get_utxos_maximum'), ('cost_get_balance', 'GetBalanceRequest', 'get_balance_maximum'),
             ('cost_get_current_fee_percentiles', 'GetCurrentFeePercentilesRequest', 'get_current_fee_percentiles_maximum'),
             ('cost_get_block_headers', 'GetBlockHeadersRequest', 'get_block_headers_maximum')]
    n = 0
    for vname, vk, vf, discr in dnet.variants:
        canon = vname.lower()
        for fn, reqname, mxf in pairs:
            d = prog.src.find_adt(['ic_btc_interface', reqname])
            vals = {f: Opaque(f) for f in d.fields}
            vals['network'] = Agg('NetworkInRequest', [], discr)
            req = Agg(d.name, [Cell(vals[f]) for f in d.fields])
            it = Interp(prog)
            c = it.call(fn, [Ref(Cell(req))])
            st.add(it)
            st.paths += 1
            n += 1
            if not isinstance(c.t, int) or c.t < tables[canon][mxf]:
                cands.add(kernel='c', role='client-attaches-less-than-default-maximum', fn=fn, network=vname, cost=c.t, maximum=tables[canon][mxf])
        # send_transaction: symbolic payload length

        def scenario(it):
            ln = it.fresh('len', 'usize', 0, 1 << 32)
            it.overrides['Vec::len'] = lambda it_, k, r, a: ln
            d = prog.src.find_adt(['ic_btc_interface', 'SendTransactionRequest'])
            vals = dict(network=Agg('NetworkInRequest', [], discr), transaction=VecV())
            req = Agg(d.name, [Cell(vals[f]) for f in d.fields])
            c = it.call('cost_send_transaction', [Ref(Cell(req))])
            t = tables[canon]
            m = check_unsat(it, rep, zterm(c.t) < t['send_transaction_base'] + t['send_transaction_per_byte'] * ln.t)
            if m is not None:
                cands.add(kernel='c', role='client-send-transaction-cost-too-small', model=m, network=vname, len=ln.t)
        explore(prog, scenario, stats=st)
        n += 1
    rep.add_stats(st, 'c:client-costs')
    rep.sample(dict(kernel='c', calls=n, networks=[v[0] for v in dnet.variants]))


ENDPOINTS = {'u': 'get_utxos', 'h': 'get_block_headers', 'b': 'get_balance', 'f': 'get_current_fee_percentiles'}


def formula(ep, fees, ins, outcome, ln=0):
    g = lambda k: int(fees.get(k, 0))
    if ep in ('get_utxos_query', 'get_balance_query'):
        return 0
    if ep in ('get_utxos', 'get_block_headers'):
        base, rate, mx = g(ep + '_base'), g(ep + '_cycles_per_ten_instructions'), g(ep + '_maximum')
        return base + (min((ins // 10) * rate, mx - base) if outcome == 'ok' else 0)
    if ep == 'send_transaction':
        return g('send_transaction_base') + g('send_transaction_per_byte') * ln
    return g(ep)


def native_cycles(fees, avail, ins, ep, inner):
    op = dict(op='cycles', endpoint=ep, fees={k: str(v) for k, v in fees.items()}, avail=str(avail), ins=int(ins), inner=inner)
    ops = [dict(op='init', network='regtest', threshold=2), op]
    return C.run_native([dict(ops=ops)], tag='c16')[0][-1], ops


def confirm(cand, known):
    if cand['kernel'] == 'c':
        doc = dict(property=PROP, role=cand['role'], summary={k: v for k, v in cand.items() if k != 'shape'},
                   problems=['client cost below the canister default maximum (constants of two crates, read from their MIR)'])
        return 'violation', doc
    fees = {k: int(v) for k, v in cand['fees'].items()}
    ep = ENDPOINTS[cand['kernel']]
    inner = 'err' if cand['role'].endswith('-err') else 'ok'
    ins = cand.get('ins') if isinstance(cand.get('ins'), int) else 0
    if 'query' in cand['role']:
        ep += '_query'
    res, ops = native_cycles(fees, cand['avail'], ins, ep, inner)
    accepted = int(res['accepted'])
    mx = fees.get(ENDPOINTS[cand['kernel']] + '_maximum', 0)
    problems = []
    if res['outcome'] == 'trap':
        if accepted != 0 and int(cand['avail']) < mx:
            problems.append('refused call (attached %s < maximum %s) but %s cycles were accepted before the trap' % (cand['avail'], mx, accepted))
        if int(cand['avail']) >= mx:
            problems.append('call with the maximum attached trapped')
    else:
        exp = formula(ep, fees, ins, res['outcome'])
        if accepted != exp:
            problems.append('accepted %s cycles, formula gives %s (outcome %s, instructions %s)' % (accepted, exp, res['outcome'], ins))
        if accepted > mx and 'query' not in ep:
            problems.append('accepted %s exceeds maximum %s' % (accepted, mx))
        if int(cand['avail']) < mx and 'query' not in ep:
            problems.append('answered although only %s < maximum %s attached' % (cand['avail'], mx))
    doc = dict(property=PROP, role=cand['role'], summary=dict(endpoint=ep, fees=fees, attached=cand['avail'], instructions=ins, inner=inner),
               native=res, problems=problems, scenario=dict(ops=ops))
    return ('violation' if problems else 'not-reproduced'), doc


def translator_validation(prog, rep, count):
    """concrete fee tables through the MIR interpreter and through the native build (hooks drive the mocked cycles API)"""
    r = C.rng()
    scen, expect = [], []
    d = prog.src.find_adt(['ic_btc_interface', 'Fees'])
    for _ in range(count):
        ep = r.choice(['get_utxos', 'get_block_headers', 'get_balance', 'get_current_fee_percentiles', 'get_utxos_query', 'get_balance_query'])
        fees = {f: r.choice([0, 1, 7, 10 ** 6, 10 ** 9, r.randint(0, 10 ** 10)]) for f in d.fields}
        for pre in ('get_utxos', 'get_block_headers'):
            fees[pre + '_maximum'] = max(fees[pre + '_maximum'], fees[pre + '_base'])
        ins = r.choice([0, 9, 10, 12345, 10 ** 9, 4 * 10 ** 10])
        mxk = ep.replace('_query', '') + '_maximum'
        avail = r.choice([fees[mxk], max(fees[mxk] - 1, 0), fees[mxk] + 5, 10 ** 30])
        inner = r.choice(['ok', 'ok', 'err']) if ep != 'get_current_fee_percentiles' else 'ok'
        exp_out = 'trap' if (avail < fees[mxk] and 'query' not in ep) else inner
        if ep in ('get_balance', 'get_current_fee_percentiles') and avail >= fees[mxk] and avail < fees[ep]:
            exp_out = 'trap'
        exp_acc = 0 if exp_out == 'trap' else formula(ep, fees, ins, inner)
        expect.append((ep, fees, ins, avail, inner, exp_out, exp_acc))
        scen.append(dict(ops=[dict(op='init', network='regtest', threshold=2),
                              dict(op='cycles', endpoint=ep, fees={k: str(v) for k, v in fees.items()}, avail=str(avail), ins=ins, inner=inner)]))
    res = C.run_native(scen, tag='c16tv')
    for (ep, fees, ins, avail, inner, exp_out, exp_acc), rr in zip(expect, res):
        got = rr[-1]
        if got.get('outcome') == exp_out and int(got.get('accepted', -1)) == exp_acc:
            rep.cov['traces_validated_against_impl'] += 1
        elif got.get('outcome') == 'trap' and exp_out == 'trap':
            rep.cov['traces_validated_against_impl'] += 1
            rep.cov.setdefault('native_refusals_with_accept', []).append(dict(endpoint=ep, accepted=got.get('accepted')))
        else:
            rep.inconclusive = 'formula/native mismatch: %s fees=%s ins=%s avail=%s inner=%s expected (%s,%s) native %s' % (
                ep, fees, ins, avail, inner, exp_out, exp_acc, got)


def main():
    tier = C.tier()
    rep = H.Report(PROP, tier)
    prog = H.load_program(['canister'])
    btc.load_dep_decls(prog)
    rep.cov['mir'] = dict(prog.info)
    rep.cov['bounds'] = dict(fee_table='every field symbolic u128 < 2^100 (rates < 2^64), base <= maximum and flat <= maximum assumed',
                             attached_cycles='symbolic u128 < 2^120', instructions='symbolic u64 < 2^63',
                             payload_len='symbolic < 2^32', outside='fee tables with maximum < base (behaviour reported under maximum_lt_base_reported)')
    rep.cov['functions_encoded'] = ['get_utxos_private', 'get_utxos::{get_utxos,get_utxos_query}', 'get_block_headers::get_block_headers',
                                    'get_balance::{get_balance,get_balance_query}', 'fee_percentiles::get_current_fee_percentiles',
                                    'charge_cycles', 'verify_has_enough_cycles', 'ic_cdk_bitcoin_canister::cost_*', 'ic_btc_interface::Fees::{mainnet,testnet}',
                                    '<Network as From<NetworkInRequest>>::from']
    rep.cov['stubs'] = btc.stub_docs(STUBS) + [
        'msg_cycles_available / msg_cycles_accept -> model of the IC cycles API (accept takes min(max, remaining))',
        'get_utxos_internal / get_block_headers_internal / get_balance_private / fee percentile computation -> nondeterministic Ok (symbolic instruction count) / Err',
        'with_state(f) -> f(&state with symbolic Fees); with_state_mut -> skipped (metrics only)']
    rep.assumptions = ['IC semantics: cycles accepted before a trap are refunded with the trap; the check nevertheless demands 0 accepted on refusal paths',
                       'for send_transaction see C19']
    cands = Cands()
    kernel_metered(prog, rep, cands, 'u')
    kernel_metered(prog, rep, cands, 'h')
    kernel_flat(prog, rep, cands, 'b')
    kernel_flat(prog, rep, cands, 'f')
    kernel_underflow(prog, rep)
    kernel_client(rep, cands)
    translator_validation(prog, rep, 60 if tier == 'quick' else 300)
    settle(rep, PROP, cands, confirm, H.load_known(PROP), describe=lambda d: str(d.get('summary'))[:300])
    return rep.finish()


if __name__ == '__main__':
    C.run_check(main)
