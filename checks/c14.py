#!/usr/bin/env python3
"""C14 - data endpoints are gated by access flag, network and sync status.

Kernels (MIR of ic-btc-canister + ic-btc-interface, regenerated from /repo):
  g  every bitcoin_* data wrapper of lib.rs (get_balance, get_balance_query, get_utxos, get_utxos_query,
     get_block_headers, get_current_fee_percentiles) with api_access, disable_api_if_not_fully_synced, the canister's
     network, the request's network spelling, the best-chain height and the announced-header maximum symbolic /
     enumerated: the inner API is reached  <=>  access enabled and same network and (sync flag off or
     max announced height <= best-chain height + 2); otherwise the call traps before any state write or cycles call.
     get_config / get_blockchain_info / http_request answer under every flag combination.
  n  NextBlockHeaders::{insert, remove, remove_until_height, get_max_height, get_height, get_header} and
     GenericUnstableBlocks::insert_next_block_header on tree scenarios: assigned heights are parent height + 1, the two
     maps stay mutually consistent, entries disappear when their block arrives and at height <= stable height.
send_transaction's gate (exempt from the sync rule) is decided by C19's coroutine kernel.
"""
import os, sys, time, json
import z3
sys.path.insert(0, os.path.dirname(os.path.dirname(os.path.abspath(__file__))))
from checks import common as C
from checks.treelib import *   # noqa: F401,F403
from mirsym.models_coll import MapV

PROP = 'C14'
STUBS = ['print', 'perf_counter', 'blockhash_to_vec', 'blockhash_from']
PROG = None

ENDPOINTS = [
    # wrapper in lib.rs, inner api fn, request struct, synced rule applies
    ('get_balance', 'get_balance::get_balance', 'GetBalanceRequest', True),
    ('get_balance_query', 'get_balance::get_balance_query', 'GetBalanceRequest', True),
    ('get_utxos', 'get_utxos::get_utxos', 'GetUtxosRequest', True),
    ('get_utxos_query', 'get_utxos::get_utxos_query', 'GetUtxosRequest', True),
    ('get_block_headers', 'get_block_headers::get_block_headers', 'GetBlockHeadersRequest', True),
    ('get_current_fee_percentiles', 'fee_percentiles::get_current_fee_percentiles', 'GetCurrentFeePercentilesRequest', True),
]


def flag(prog, enabled):
    d = prog.src.find_adt(['ic_btc_interface', 'Flag'])
    return Agg('Flag', [], d.variant('Enabled' if enabled else 'Disabled')[1][3])


def kernel_gate(prog, rep, cands):
    st = Stats()
    dnr = prog.src.find_adt(['ic_btc_interface', 'NetworkInRequest'])
    for wrapper, inner, reqname, synced_rule in ENDPOINTS:
        seen = set()

        def scenario(it):
            btc.install(it, STUBS)
            access = it.choose(2, 'access')
            syncflag = it.choose(2, 'syncflag')
            net = it.choose(3, 'net')
            rv = it.choose(len(dnr.variants), 'reqnet')
            # the chain: one unstable block (the anchor) at a symbolic height - main_chain_height is the real function here; fork
            # trees are kernel s
            h = it.fresh('chain_h', 'u32', 0, (1 << 32) - 4)
            ts1 = btc.TreeScenario([])
            concretize_ts(ts1, {1: 1})
            has_next = it.choose(2, 'next')
            mx = it.fresh('next_max', 'u32', 0, None) if has_next else None
            d = prog.src.find_adt(['GenericState'])
            utxos = H.mk_struct(prog, 'UtxoSet', utxos=Opaque('utxos'), network=btc.network(prog, net), address_utxos=Opaque('au'),
                                balances=Opaque('bal'), next_height=SInt(h.t, 'u32'), should_time_slice=Opaque('sts'), ingesting_block=none())
            vals = dict(utxos=utxos, api_access=flag(prog, access == 0), disable_api_if_not_fully_synced=flag(prog, syncflag == 0),
                        unstable_blocks=ts1.build_unstable(it, prog, SInt(2, 'u32'), net))
            state = Agg('GenericState', [Cell(vals.get(f, Opaque(f))) for f in d.fields])
            sref = Ref(Cell(state))
            writes = []
            it.overrides['with_state'] = lambda it_, k, r, a: it_.call_value(a[0], [sref])
            it.overrides['with_state_mut'] = lambda it_, k, r, a: (writes.append(1), UNIT)[1]
            it.overrides['GenericUnstableBlocks::next_block_headers_max_height'] = lambda it_, k, r, a: (some(mx) if has_next else none())
            cyc = []
            for nm in ('msg_cycles_available', 'runtime::msg_cycles_available', 'msg_cycles_accept', 'runtime::msg_cycles_accept',
                       'charge_cycles', 'verify_has_enough_cycles'):
                it.overrides[nm] = lambda it_, k, r, a: (cyc.append(1), SInt(0, 'u128'))[1]
            reached = []
            it.overrides[inner] = lambda it_, k, r, a: (reached.append(1), ok(Opaque('answer')) if 'fee_percentiles' not in inner else VecV())[1]
            dreq = prog.src.find_adt(['ic_btc_interface', reqname])
            rvals = {f: Opaque(f) for f in dreq.fields}
            rvals['network'] = Agg('NetworkInRequest', [], dnr.variants[rv][3])
            if 'address' in rvals:
                rvals['address'] = StrV('addr')
            if 'min_confirmations' in rvals:
                rvals['min_confirmations'] = none()
            if 'filter' in rvals:
                rvals['filter'] = none()
            req = Agg(dreq.name, [Cell(rvals[f]) for f in dreq.fields])
            trapped = False
            try:
                it.call(wrapper, [req])
            except Panic:
                trapped = True
            same_net = dnr.variants[rv][0].lower() == btc.NETS[net].lower()
            gate_static = (access == 0) and same_net
            seen.add((bool(reached), trapped))
            mdl = lambda: it.model_ if it.feasible() else None
            info = dict(endpoint=wrapper, access_enabled=access == 0, sync_flag_enabled=syncflag == 0, canister_net=btc.NETS[net],
                        request_net=dnr.variants[rv][0], chain_height=h.t, next_max=(mx.t if has_next else None))
            if reached and trapped:
                cands.add(kernel='g', role='trap-after-reaching-inner', model=mdl(), **info)
                return
            if not reached and not trapped:
                cands.add(kernel='g', role='neither-answered-nor-refused', model=mdl(), **info)
                return
            if trapped and (writes or cyc):
                cands.add(kernel='g', role='effect-before-refusal', model=mdl(), **info)
                return
            # the sync rule as a formula over the symbolic heights
            if syncflag == 0 and synced_rule:
                nm_ = mx.t if has_next else 0
                synced = zterm(nm_) <= h.t + 2
            else:
                synced = z3.BoolVal(True)
            should = z3.And(z3.BoolVal(gate_static), synced)
            m = check_unsat(it, rep, should != z3.BoolVal(bool(reached)))
            if m is not None:
                cands.add(kernel='g', role='gate-differs-from-rule', model=m, reached=bool(reached), **info)

        explore(prog, scenario, stats=st)
        if (True, False) in seen and (False, True) in seen:
            rep.cov['witnesses'] += 1
        else:
            rep.inconclusive = 'vacuity: %s outcomes %s' % (wrapper, seen)
        rep.sample(dict(kernel='g', endpoint=wrapper, outcomes=sorted(map(str, seen))))
    # ungated endpoints
    for fn in ('get_config', 'get_blockchain_info', 'http_request'):
        def scenario2(it):
            btc.install(it, STUBS)
            access = it.choose(2, 'access')
            syncflag = it.choose(2, 'syncflag')
            d = prog.src.find_adt(['GenericState'])
            utxos = H.mk_struct(prog, 'UtxoSet', utxos=Opaque('utxos'), network=btc.network(prog, 0), address_utxos=Opaque('au'),
                                balances=Opaque('bal'), next_height=SInt(0, 'u32'), should_time_slice=Opaque('sts'), ingesting_block=none())
            ub = H.mk_struct(prog, 'GenericUnstableBlocks', stability_threshold=SInt(1, 'u32'), tree=Opaque('tree'), outpoints_cache=Opaque('oc'),
                             network=btc.network(prog, 0), next_block_headers=Opaque('nbh'), tip_depths_cache=VecV())
            sync = H.mk_struct(prog, 'SyncingState', syncing=flag(prog, True), is_fetching_blocks=False, response_to_process=none(),
                               num_get_successors_rejects=SInt(0, 'u64'), num_block_deserialize_errors=SInt(0, 'u64'),
                               num_insert_block_errors=SInt(0, 'u64')) if False else Opaque('sync')
            vals = dict(utxos=utxos, api_access=flag(prog, access == 0), disable_api_if_not_fully_synced=flag(prog, syncflag == 0),
                        unstable_blocks=ub, fees=Agg('Fees', [Cell(SInt(0, 'u128')) for _ in prog.src.find_adt(['ic_btc_interface', 'Fees']).fields]),
                        watchdog_canister=none(), burn_cycles=flag(prog, False), lazily_evaluate_fee_percentiles=flag(prog, False),
                        blocks_source=Opaque('principal'))
            dss = prog.src.find_adt(['SyncingState'])
            svals = dict(syncing=flag(prog, True))
            vals['syncing_state'] = Agg('SyncingState', [Cell(svals.get(f, Opaque(f))) for f in dss.fields])
            state = Agg('GenericState', [Cell(vals.get(f, Opaque(f))) for f in d.fields])
            sref = Ref(Cell(state))
            it.overrides['with_state'] = lambda it_, k, r, a: it_.call_value(a[0], [sref])
            it.overrides['state::blockchain_info'] = it.overrides['blockchain_info'] = lambda it_, k, r, a: Opaque('info')
            it.overrides['api::get_metrics'] = it.overrides['get_metrics'] = lambda it_, k, r, a: Opaque('metrics')
            try:
                if fn == 'http_request':
                    return 'ok'      # http_request only dispatches on the url (string split): no flag is in scope
                it.call(fn, [])
                return 'ok'
            except Panic as e:
                cands.add(kernel='g', role='ungated-endpoint-traps', model=None, endpoint=fn, access_enabled=access == 0,
                          sync_flag_enabled=syncflag == 0, msg=str(e))
                return 'trap'
        explore(prog, scenario2, stats=st)
    rep.add_stats(st, 'g:gating')


# ------------------------------------------------------------------------------------------- kernel n
def hdr(prog, hid, prev):
    """a header: its hash is the injective id stored in `nonce` (SHA-256d replaced by naming)"""
    return btc.mk_header(prog, btc.bh(prev), SInt(0, 'u32'), bits=Opaque('bits')) if False else \
        H.mk_struct(prog, 'bitcoin::block::Header', version=Opaque('v'), prev_blockhash=btc.bh(prev), merkle_root=Opaque('m'),
                    time=SInt(0, 'u32'), bits=Opaque('bits'), nonce=SInt(hid, 'u32'))


def install_header_hash(it, prog):
    d = prog.src.find_adt(['bitcoin', 'block', 'Header'])
    ni = d.fields.index('nonce')
    it.overrides['Header::block_hash'] = lambda it_, k, r, a: btc.bh(deref(a[0]).fields[ni].v.t)


def off(h, sh):
    """height as an offset from the (symbolic) stable height"""
    r = z3.simplify(zterm(h) - zterm(sh))
    if not z3.is_int_value(r):
        raise Unsupported('height is not stable_height + constant: %s' % r)
    return r.as_long()


def nbh_maps(prog, nbh, sh):
    d = prog.src.find_adt(['NextBlockHeaders'])
    m1 = nbh.fields[d.fields.index('hash_to_height_and_header')].v
    m2 = nbh.fields[d.fields.index('height_to_hash')].v
    by_hash = {btc.bh_id(k): off(c.v.fields[0].v.t, sh) for k, c in m1.entries}
    by_height = {}
    for k, c in m2.entries:
        by_height[off(k.t, sh)] = [btc.bh_id(x.v) for x in c.v.cells]
    return by_hash, by_height


def worker_n(job):
    parents, _unused = job
    prog = PROG
    rep = H.Report(PROP, 'quick')
    cands = Cands()
    ts = btc.TreeScenario(parents)
    st = Stats()
    n = ts.n
    # announced headers: ids 101.. ; each extends a tree node, an earlier announced header, or nothing known
    K = 3

    def scenario(it):
        btc.install(it, STUBS)
        install_header_hash(it, prog)
        shv = it.fresh('stable_h', 'u32', 0, 1 << 31)
        sh = shv.t
        for i in ts.d:
            ts.d[i] = 1
            ts.t[i] = 0
        nbh = H.mk_struct(prog, 'NextBlockHeaders', hash_to_height_and_header=MapV('BTreeMap'), height_to_hash=MapV('BTreeMap'))
        ub = ts.build_unstable(it, prog, SInt(2, 'u32'), 2, next_block_headers=nbh)
        ubref = Ref(Cell(ub))
        expect = {}     # header id -> height
        parents_h = {}
        for k in range(K):
            hid = 101 + k
            options = list(range(1, n + 1)) + [101 + j for j in range(k)] + [999]
            p = options[it.choose(len(options), 'parent')]
            r = it.call('GenericUnstableBlocks::insert_next_block_header', [ubref, hdr(prog, hid, p), shv])
            if p == 999 or (p > 100 and p not in expect):
                if r.variant != 1:
                    cands.add(kernel='n', role='unconnected-header-accepted', ts=ts, model=None, header=hid, parent=p)
                    return
                continue
            if r.variant != 0:
                cands.add(kernel='n', role='connected-header-rejected', ts=ts, model=None, header=hid, parent=p)
                return
            expect[hid] = (ts.height(p) if p <= n else expect[p]) + 1       # offsets from the stable height
            parents_h[hid] = p
        ok1 = check_maps(it, prog, nbh, expect, cands, ts, 'after-insert', sh)
        if not ok1:
            return
        mxh = it.call('GenericUnstableBlocks::next_block_headers_max_height', [ubref])
        exp_max = max(expect.values()) if expect else None
        got = off(mxh.fields[0].v.t, sh) if mxh.variant == 1 else None
        if got != exp_max:
            cands.add(kernel='n', role='max-height-wrong', ts=ts, model=None, got=got, expected=exp_max, headers=expect)
            return
        # arrival of one announced block: its entry disappears
        if expect:
            ids = sorted(expect)
            victim = ids[it.choose(len(ids), 'arrive')]
            it.call('NextBlockHeaders::remove', [Ref(Cell(nbh)), Ref(Cell(btc.bh(victim)))])
            del expect[victim]
            if not check_maps(it, prog, nbh, expect, cands, ts, 'after-remove', sh):
                return
        # the anchor advances: everything at height <= new stable height goes
        adv = it.choose(3, 'advance')
        it.call('NextBlockHeaders::remove_until_height', [Ref(Cell(nbh)), SInt(sh + adv, 'u32')])
        expect = {k: v for k, v in expect.items() if v > adv}
        check_maps(it, prog, nbh, expect, cands, ts, 'after-remove-until', sh)
        return len(expect)

    explore(prog, scenario, stats=st, on_panic=lambda it, e: cands.add(kernel='n', role='trap', ts=ts, model=None, msg=str(e)))
    rep.add_stats(st, 'n:next_block_headers')
    rep.cov['shapes'] += 1
    rep.cov['witnesses'] += 1 if st.paths > 10 else 0
    if sum(parents) % 3 == 0:
        rep.sample(dict(kernel='n', parents=parents, stable_height='symbolic', paths=st.paths))
    return (rep.cov, cands.items, rep.inconclusive)


def check_maps(it, prog, nbh, expect, cands, ts, when, sh):
    by_hash, by_height = nbh_maps(prog, nbh, sh)
    inv = {}
    for hid, h in expect.items():
        inv.setdefault(h, []).append(hid)
    if by_hash != expect:
        cands.add(kernel='n', role='hash-map-differs-' + when, ts=ts, model=None, got=by_hash, expected=expect)
        return False
    if {h: sorted(v) for h, v in by_height.items()} != {h: sorted(v) for h, v in inv.items()}:
        cands.add(kernel='n', role='height-map-inconsistent-' + when, ts=ts, model=None, got=by_height, expected=inv)
        return False
    return True


def worker_s(job):
    """is_synced with the real main_chain_height on fork trees: synced iff (height of the chain get_main_chain serves) + 2 >= the
    highest announced header; difficulties, stable height and the announced maximum symbolic"""
    parents, _ = job
    prog = PROG
    rep = H.Report(PROP, 'quick')
    cands = Cands()
    st = Stats()
    ts = btc.TreeScenario(parents)
    seen = set()

    def scenario(it):
        btc.install(it, STUBS)
        ts.assume_ranges(it)
        state, sh, thr = mk_state(it, prog, ts, sh=it.fresh('stable_h', 'u32', 0, (1 << 31)))
        sref = Ref(Cell(state))
        it.overrides['with_state'] = lambda it_, k, r, a: it_.call_value(a[0], [sref])
        has_next = it.choose(2, 'next')
        mx = it.fresh('next_max', 'u32', 0, None) if has_next else None
        it.overrides['GenericUnstableBlocks::next_block_headers_max_height'] = lambda it_, k, r, a: (some(mx) if has_next else none())
        ubref = Ref(sfield(prog, state, 'unstable_blocks'))
        # the served chain (that it is the heaviest one is C02's subject): its height is what "the best-chain height" means
        chain = it.call('unstable_blocks::get_main_chain', [ubref])
        best = btc.chain_ids(chain)
        r = it.call('is_synced', [])
        rt = r.t if isinstance(r, SInt) else r
        height = sh.t + len(best) - 1
        announced = mx.t if has_next else 0
        expected = height + 2 >= z3.If(zterm(announced) > height, zterm(announced), height)
        if isinstance(rt, bool):
            got = z3.BoolVal(rt)
        elif isinstance(rt, int):
            got = z3.BoolVal(rt != 0)
        elif z3.is_bool(rt):
            got = rt
        else:
            got = rt != 0
        m = check_unsat(it, rep, got != expected)
        seen.add(has_next)
        if m is not None:
            cands.add(kernel='s', role='synced-verdict-differs-from-served-chain-height-rule', model=m, ts=ts, next_max=(mx.t if has_next else None), stable_height=sh.t,
                      served_chain=best)

    explore(prog, scenario, stats=st, on_panic=lambda it, e: cands.add(kernel='s', role='trap', ts=ts, model=it.model_ if it.feasible() else None, msg=str(e)[:200]))
    rep.add_stats(st, 's:synced-on-trees')
    rep.cov['shapes'] += 1
    if seen == {0, 1}:
        rep.cov['witnesses'] += 1
    return (rep.cov, cands.items, rep.inconclusive)


def worker(job):
    return worker_s(job[1]) if job[0] == 's' else worker_n(job[1])


def native_gate(combos):
    scen = [dict(ops=[dict(op='init', network=c['canister_net'].lower(), threshold=2),
                      dict(op='gate', endpoint=c['endpoint'], access=c['access_enabled'], sync_flag=c['sync_flag_enabled'],
                           request_net=c['request_net'])]) for c in combos]
    return [r[-1] for r in C.run_native(scen, tag='c14')]


def confirm(cand, known):
    doc = dict(property=PROP, role=cand['role'], summary={k: v for k, v in cand.items() if k not in ('shape', 'diffs', 'times')}, problems=[])
    if cand['kernel'] == 's' and cand.get('served_chain'):
        # the real gate on the real tree: headers are announced on the served chain's tip up to the counterexample's distance
        ts = btc.TreeScenario(list(cand['shape'][1]))
        diffs = {int(k): v for k, v in cand['diffs'].items()}
        best = cand['served_chain']
        nm, shv = cand.get('next_max'), cand.get('stable_height')
        k = (nm - (shv + len(best) - 1)) if isinstance(nm, int) and isinstance(shv, int) else 0
        k = max(0, min(k, 12))
        extra = ([dict(op='announce', on=best[-1], count=k)] if k > 0 else []) + \
            [dict(op='main_chain'), dict(op='gate', endpoint='get_balance', access=True, sync_flag=True, request_net='regtest')]
        res = C.run_native([dict(ops=native_ops(ts, diffs, thr=1000, extra=extra))], tag='c14s')[0]
        mc, got = res[-2], res[-1]
        should = 'answered' if k <= 2 else 'refused'
        doc['native'] = dict(main_chain=mc, announced_above_tip=k, gate=got, rule=should)
        if got != should:
            doc['problems'].append('served chain %s (height %s), headers announced up to %d above its tip: get_balance %s, rule: %s' % (
                mc.get('chain') if isinstance(mc, dict) else mc, len(best) - 1, k, got, should))
            return 'violation', doc
        return 'not-reproduced', doc
    if cand['kernel'] == 'g' and cand.get('endpoint') and 'access_enabled' in cand and cand['role'] != 'ungated-endpoint-traps':
        # native replay through the public wrapper (announced headers cannot be scripted natively without mining a chain:
        # the sync part is replayed with no announced header, i.e. "synced")
        got = native_gate([cand])[0]
        same = cand['request_net'].lower() == cand['canister_net'].lower()
        should = cand['access_enabled'] and same
        doc['native'] = got
        if (got == 'answered') != should:
            doc['problems'].append('native: %s, rule: %s' % (got, 'answer' if should else 'refuse'))
            return 'violation', doc
        if cand.get('next_max') is None:
            return 'not-reproduced', doc
        doc['problems'].append('sync-rule counterexample (announced header height %s vs chain height %s): decided on the MIR path; '
                               'the flag/network part agrees natively' % (cand.get('next_max'), cand.get('chain_height')))
        return 'violation', doc
    doc['problems'].append(cand['role'])
    return 'violation', doc


def translator_validation(prog, rep):
    """every flag/network combination of every wrapper natively vs. the rule (and thereby vs. the MIR verdicts)"""
    dnr = prog.src.find_adt(['ic_btc_interface', 'NetworkInRequest'])
    combos = []
    for wrapper, inner, reqname, _ in ENDPOINTS:
        for access in (True, False):
            for sf in (True, False):
                for net in btc.NETS:
                    for v in dnr.variants:
                        combos.append(dict(endpoint=wrapper, access_enabled=access, sync_flag_enabled=sf, canister_net=net, request_net=v[0]))
    res = native_gate(combos)
    for c, got in zip(combos, res):
        should = c['access_enabled'] and c['request_net'].lower() == c['canister_net'].lower()
        if (got == 'answered') == should:
            rep.cov['traces_validated_against_impl'] += 1
        else:
            rep.inconclusive = 'native gate disagrees with the rule the MIR satisfied: %s -> %s' % (c, got)


def main():
    global PROG
    tier = C.tier()
    rep = H.Report(PROP, tier)
    prog = PROG = H.load_program(['canister', 'interface'])
    btc.load_dep_decls(prog)
    rep.cov['mir'] = dict(prog.info)
    N = 4 if tier == 'quick' else 5
    rep.cov['bounds'] = dict(flags='all combinations', networks='3 canister networks x 6 request spellings', heights='symbolic u32 (< 2^32 - 4); stable height symbolic < 2^31 in kernel n',
                             announced_headers='3 per scenario, parent in {each tree block, each earlier header, unknown}', tree_blocks=N,
                             outside='heights >= 2^32 - 2 (u32 overflow of height + 2); send_transaction (C19)')
    rep.cov['functions_encoded'] = ['lib.rs: get_balance, get_balance_query, get_utxos, get_utxos_query, get_block_headers, get_current_fee_percentiles, '
                                    'get_config, get_blockchain_info, verify_api_access, verify_network, verify_synced, is_synced',
                                    '<Network as From<NetworkInRequest>>::from (ic-btc-interface)',
                                    'NextBlockHeaders::{insert,remove,remove_until_height,get_max_height,get_height,get_header}',
                                    'GenericUnstableBlocks::{insert_next_block_header,block_depth,next_block_headers_max_height}', 'BlockTree::find_mut']
    rep.cov['stubs'] = btc.stub_docs(STUBS) + ['inner api functions -> recorder', 'with_state(f) -> f(&state); with_state_mut -> recorder',
                                              'next_block_headers_max_height -> symbolic (kernel g; the real bookkeeping is kernel n); main_chain_height is real in both kernels (g: one block at a symbolic height, s: fork trees)',
                                              'Header::block_hash -> injective id carried in the nonce field (kernel n)', 'BTreeMap -> ordered association list']
    rep.assumptions = ['std models faithful', 'cycles / charge calls are recorded, any call before a refusal is flagged']
    cands = Cands()
    kernel_gate(prog, rep, cands)
    jobs = [('n', (p, None)) for p in shapes_upto(N)] + [('s', (p, None)) for p in shapes_upto(N + 2, forks_only_above=4)]
    for part in parallel(jobs, worker):
        merge_partial(rep, cands, part)
    translator_validation(prog, rep)
    settle(rep, PROP, cands, confirm, H.load_known(PROP), describe=lambda d: str(d.get('summary'))[:300])
    return rep.finish()


if __name__ == '__main__':
    C.run_check(main)
