#!/usr/bin/env python3
"""C13 - block fetching survives any reply sequence and interleaving.

Kernel (MIR regenerated from /repo): the compiled state machines of `heartbeat` and `maybe_fetch_blocks` (driven through
their poll functions), FetchBlocksGuard::{new,drop}, maybe_get_successors_request, the response bookkeeping closure,
maybe_process_response.  The awaited get_successors call is a suspension point: a schedule is a sequence of events
"start a heartbeat" / "deliver the reply to suspended heartbeat j"; the reply kind is chosen when it is delivered
(complete with 0..2 blocks, partial announcing r follow-ups, follow-up page, reject).
Checked on every schedule within the bound:
  * at most one request outstanding;  follow-up requests numbered 0,1,2,...;
  * a paged block is reassembled as the concatenation of its pages, in order, and processed once;
  * after a reject nothing partial is kept and the next request is Initial{anchor, all other unstable hashes};
  * no block blob reaches insert_block twice;  no schedule traps;
  * afterwards a well-behaved source gets its next offered block applied within a few heartbeats.
"""
import os, sys, time, json
import z3
sys.path.insert(0, os.path.dirname(os.path.dirname(os.path.abspath(__file__))))
from checks import common as C
from checks.treelib import *   # noqa: F401,F403
from checks.c14 import flag
from mirsym.models_std import LeafFuture, poll_once, MODELS

PROP = 'C13'
STUBS = ['print', 'perf_counter', 'blockhash_to_vec', 'blockhash_from']
PROG = None


def blob(ids):
    return VecV([Cell(SInt(i, 'u8')) for i in ids])


def blob_ids(v):
    v = deref(v)
    return tuple(c.v.t for c in it_cells(v))


def it_cells(v):
    if isinstance(v, VecV):
        return v.cells
    if isinstance(v, SliceRef):
        return v.cells()
    raise Unsupported('blob %r' % (v,))


class World:
    def __init__(self, it, prog, remaining_choices):
        self.it, self.prog = it, prog
        self.remaining_choices = remaining_choices
        self.requests = []          # (kind, payload)
        self.outstanding = 0
        self.max_outstanding = 0
        self.inserted = []          # blobs (tuples of chunk ids) that reached insert_block
        self.offered = []           # blobs the source has completely delivered
        self.next_chunk = 10
        self.paging = None          # source side: dict(chunks=[..], announced=r) while a block is being paged
        self.npartial = 0
        self.violations = []
        self.adversarial = True
        self.build_state()
        self.install()

    def build_state(self):
        prog, it = self.prog, self.it
        ts = self.ts = btc.TreeScenario([1, 1])            # anchor with two children: Initial must name 1 and [2, 3]
        concretize_ts(ts, {1: 1, 2: 1, 3: 1})
        ub = ts.build_unstable(it, prog, SInt(2, 'u32'), 2)
        dss = prog.src.find_adt(['SyncingState'])
        drq = prog.src.find_adt(['SuccessorsRequestStats'])
        drs = prog.src.find_adt(['SuccessorsResponseStats'])
        rq = Agg('SuccessorsRequestStats', [Cell(none() if f == 'last_request_time' else SInt(0, 'u64')) for f in drq.fields])
        rs = Agg('SuccessorsResponseStats', [Cell(SInt(0, 'u64')) for f in drs.fields])
        sv = dict(syncing=flag(prog, True), is_fetching_blocks=False, response_to_process=none(), num_get_successors_rejects=SInt(0, 'u64'),
                  num_block_deserialize_errors=SInt(0, 'u64'), num_insert_block_errors=SInt(0, 'u64'),
                  get_successors_request_stats=rq, get_successors_response_stats=rs)
        self.sync = Agg('SyncingState', [Cell(sv[f]) for f in dss.fields])
        utxos = H.mk_struct(prog, 'UtxoSet', utxos=Opaque('utxos'), network=btc.network(prog, 2), address_utxos=Opaque('au'),
                            balances=Opaque('bal'), next_height=SInt(0, 'u32'), should_time_slice=Opaque('sts'), ingesting_block=none())
        d = prog.src.find_adt(['GenericState'])
        vals = dict(utxos=utxos, unstable_blocks=ub, syncing_state=self.sync, blocks_source=Opaque('blocks_source'),
                    lazily_evaluate_fee_percentiles=flag(prog, True), burn_cycles=flag(prog, False))
        self.state = Agg('GenericState', [Cell(vals.get(f, Opaque(f))) for f in d.fields])
        self.sref = Ref(Cell(self.state))
        self.dss = dss

    def sync_field(self, name):
        return self.sync.fields[self.dss.fields.index(name)]

    def install(self):
        it, prog = self.it, self.prog
        btc.install(it, STUBS)
        ov = it.overrides
        ov['with_state'] = lambda it_, k, r, a: it_.call_value(a[0], [self.sref])
        ov['with_state_mut'] = lambda it_, k, r, a: it_.call_value(a[0], [self.sref])
        ov['collect_metrics'] = ov['maybe_burn_cycles'] = ov['maybe_compute_fee_percentiles'] = lambda it_, k, r, a: UNIT
        ov['heartbeat::ingest_stable_blocks_into_utxoset'] = ov['ingest_stable_blocks_into_utxoset'] = \
            lambda it_, k, r, a: H.mk_variant(prog, 'Slicing', 'Done', False)
        ov['data_size'] = ov['datasize::data_size'] = lambda it_, k, r, a: SInt(0, 'usize')
        tick = [0]

        def now(it_, k, r, a):
            tick[0] += 1
            return SInt(tick[0] * 1_000_000_000, 'u64')
        ov['runtime::time'] = ov['time'] = now
        ov['Duration::from_nanos'] = lambda it_, k, r, a: Opaque('duration')
        ov['Duration::as_secs_f64'] = lambda it_, k, r, a: 0.0
        ov['Histogram::observe'] = lambda it_, k, r, a: UNIT
        ov['call_get_successors'] = ov['runtime::call_get_successors'] = self.call_get_successors
        ov['<Block as Decodable>::consensus_decode'] = lambda it_, k, r, a: ok(Agg('BitcoinBlock', [Cell(blob_ids(deref(a[0])))]))
        ov['Block::new'] = lambda it_, k, r, a: a[0]
        ov['insert_block'] = ov['state::insert_block'] = self.insert_block
        ov['insert_next_block_headers'] = ov['state::insert_next_block_headers'] = lambda it_, k, r, a: UNIT

    # ---- the block source
    def call_get_successors(self, it, k, r, a):
        req = a[1]
        drq = self.prog.src.find_adt(['types', 'GetSuccessorsRequest'])
        kind = [v[0] for v in drq.variants if v[3] == req.variant][0]
        if kind == 'Initial':
            ini = req.fields[0].v
            di = self.prog.src.find_adt(['types', 'GetSuccessorsRequestInitial'])
            anchor = btc.bh_id(ini.fields[di.fields.index('anchor')].v)
            others = [btc.bh_id(c.v) for c in ini.fields[di.fields.index('processed_block_hashes')].v.cells]
            self.requests.append(('Initial', (anchor, tuple(others))))
        else:
            self.requests.append(('FollowUp', req.fields[0].v.t))
        self.outstanding += 1
        self.max_outstanding = max(self.max_outstanding, self.outstanding)
        idx = len(self.requests) - 1
        return LeafFuture(lambda it2: self.reply(it2, idx), pending=1, label='get_successors#%d' % idx)

    def fresh_chunk(self):
        self.next_chunk += 1
        return self.next_chunk

    def reply(self, it, idx):
        """the reply delivered to request idx (chosen now)"""
        self.outstanding -= 1
        kind, payload = self.requests[idx]
        prog = self.prog
        mk = lambda v, *x: H.mk_variant(prog, 'types::GetSuccessorsResponse', v, *x)
        if self.adversarial and it.choose(2, 'reject') == 1:
            self.paging = None
            self.log.append(('reject', idx))
            return err(Opaque('call::Error'))
        if kind == 'Initial':
            opts = ['complete0', 'complete1', 'complete2', 'partial'] if self.adversarial else ['complete1']
            o = opts[it.choose(len(opts), 'initial-reply')]
            if o.startswith('complete'):
                n = int(o[-1])
                blobs = [(self.fresh_chunk(),) for _ in range(n)]
                self.offered.extend(blobs)
                self.log.append((o, blobs))
                resp = H.mk_struct(prog, 'types::GetSuccessorsCompleteResponse', blocks=VecV([Cell(blob(b)) for b in blobs]), next=VecV())
                return ok(mk('Complete', resp))
            # a paged block: the number of announced follow-ups is symbolic (0..255)
            self.npartial += 1
            r = it.fresh('remaining_follow_ups_%d' % self.npartial, 'u8', 0, 255)
            first = self.fresh_chunk()
            self.paging = dict(chunks=[first], announced=r)
            if it.branch(r.t == 0):
                # a partial reply announcing no follow-up is complete as it stands
                self.offered.append((first,))
                self.paging['done'] = True
            self.log.append(('partial', first))
            resp = H.mk_struct(prog, 'types::GetSuccessorsPartialResponse', partial_block=blob([first]), next=VecV(),
                               remaining_follow_ups=r)
            return ok(mk('Partial', resp))
        # follow-up request: the source sends the next page of the block it is paging
        c = self.fresh_chunk()
        if self.paging is not None and not self.paging.get('done'):
            self.paging['chunks'].append(c)
            if it.branch(self.paging['announced'].t == len(self.paging['chunks']) - 1):
                self.offered.append(tuple(self.paging['chunks']))
                self.paging['done'] = True
        self.log.append(('followup', payload, c))
        return ok(mk('FollowUp', blob([c])))

    def insert_block(self, it, k, r, a):
        ids = a[1].fields[0].v
        self.inserted.append(ids)
        return ok(UNIT)


def run_schedule(it, prog, rep, cands, events, remaining_choices, seen):
    w = World(it, prog, remaining_choices)
    w.log = []
    live = []          # suspended heartbeats: Cell(coroutine)
    trace = []

    def fail(role, **kw):
        m = it.model_ if it.feasible() else None
        cands.add(kernel='s', role=role, model=m, trace=list(trace), log=[str(x) for x in w.log], requests=[str(x) for x in w.requests],
                  remaining=[z3.Int('remaining_follow_ups_%d' % (i + 1)) for i in range(w.npartial)], **kw)

    def step_heartbeat(co):
        """poll once; returns True if it completed"""
        st_, _ = poll_once(it, co)
        return st_ == 'ready'

    def invariants():
        if w.max_outstanding > 1:
            fail('more-than-one-request-outstanding')
            return False
        # follow-up numbering: after a partial reply the follow-up requests count 0,1,2,... until a reject/complete
        exp = None
        for (kind, payload) in w.requests:
            if kind == 'FollowUp':
                if exp is None or payload != exp:
                    fail('follow-up-numbering', got=payload, expected=exp)
                    return False
                exp += 1
            else:
                exp = None
                if payload != (1, (2, 3)):
                    fail('initial-request-does-not-name-anchor-and-all-other-blocks', got=str(payload))
                    return False
            # a partial reply to this request (re)starts the numbering: handled below via log order
        # rebuild expected numbering from the log (request i answered by log entries in order)
        if len(set(w.inserted)) != len(w.inserted):
            fail('block-applied-twice', inserted=[str(x) for x in w.inserted])
            return False
        for b in w.inserted:
            if b not in w.offered:
                fail('processed-blob-is-not-an-offered-block', blob=str(b), offered=[str(x) for x in w.offered])
                return False
        return True

    # numbering needs to know when a partial reply arrives: requests after it are follow-ups starting at 0
    def numbering_ok():
        exp = None
        ri = 0
        # pair requests with replies in order of issue (at most one outstanding => sequential)
        replies = [x for x in w.log if x[0] != 'noop']
        for i, (kind, payload) in enumerate(w.requests):
            if kind == 'FollowUp':
                if exp is None or payload != exp:
                    return False, (payload, exp)
                exp += 1
            else:
                exp = None
            if i < len(replies):
                rk = replies[i][0]
                if rk == 'partial':
                    exp = 0
                elif rk == 'reject' or rk.startswith('complete'):
                    exp = None
        return True, None

    try:
        for ev in range(events):
            opts = []
            if len(live) < 2:
                opts.append(('start', None))
            opts += [('resume', j) for j in range(len(live))]
            kind, j = opts[it.choose(len(opts), 'event')]
            trace.append((kind, j))
            if kind == 'start':
                co = Cell(it.call('heartbeat', []))
                if not step_heartbeat(co):
                    live.append(co)
            else:
                co = live[j]
                if step_heartbeat(co):
                    live.pop(j)
            okn, info = numbering_ok()
            if not okn:
                fail('follow-up-numbering', got=info[0], expected=info[1])
                return
            if w.max_outstanding > 1:
                fail('more-than-one-request-outstanding')
                return
            for (kind_, payload) in w.requests:
                if kind_ == 'Initial' and payload != (1, (2, 3)):
                    fail('initial-request-does-not-name-anchor-and-all-other-blocks', got=str(payload))
                    return
            if len(set(w.inserted)) != len(w.inserted):
                fail('block-applied-twice', inserted=[str(x) for x in w.inserted])
                return
            for b in w.inserted:
                if b not in w.offered:
                    fail('processed-blob-is-not-the-concatenation-of-the-offered-pages', blob=str(b), offered=[str(x) for x in w.offered])
                    return
            # after a reject nothing partial is kept
            if w.log and w.log[-1][0] == 'reject' and kind == 'resume':
                if w.sync_field('response_to_process').v.variant != 0:
                    fail('partial-data-kept-after-reject')
                    return
        # ---- well-behaved continuation: rejects stop, the source completes what it announced
        w.adversarial = False
        if w.paging is not None and not w.paging.get('done'):
            # liveness is judged for blocks whose announced page count can be delivered within the continuation
            it.assume(w.paging['announced'].t <= len(w.paging['chunks']) - 1 + 3)
            if not it.feasible():
                return
        before = len(w.inserted)
        for rnd in range(12):
            # finish suspended heartbeats first
            while live:
                co = live[0]
                if step_heartbeat(co):
                    live.pop(0)
            co = Cell(it.call('heartbeat', []))
            trace.append(('start*', rnd))
            if not step_heartbeat(co):
                live.append(co)
            if len(w.inserted) > before and not live:
                break
        while live:
            co = live[0]
            if step_heartbeat(co):
                live.pop(0)
        pending_offers = [b for b in w.offered if b not in w.inserted]
        if len(w.inserted) == before:
            fail('no-block-applied-with-a-well-behaved-source')
            return
        seen.add(tuple(x[0] if isinstance(x, tuple) else x for x in w.log[:3]))
    except Panic as e:
        fail('trap', msg=str(e)[:200])


def worker_step(job):
    """one follow-up step from an arbitrary paging state (the schedules above can only reach small page counts): the stored
    response is Partial{remaining_follow_ups = R, pages so far} with follow-up index K, both symbolic u8, K < R.  One heartbeat:
    the request is FollowUp(K); after a FollowUp reply the stored response is Complete([pages so far + the new page]) iff
    K + 1 = R, else Partial with index K + 1 and the page appended; nothing traps"""
    prog = PROG
    rep = H.Report(PROP, 'quick')
    cands = Cands()
    st = Stats()
    seen = set()

    def scenario(it):
        w = World(it, prog, None)
        w.log = []
        w.adversarial = False
        R = it.fresh('remaining_follow_ups', 'u8', 1, 255)
        K = it.fresh('follow_up_index', 'u8', 0, 254)
        it.assume(K.t < R.t)
        presp = H.mk_struct(prog, 'types::GetSuccessorsPartialResponse', partial_block=blob([1]), next=VecV(), remaining_follow_ups=SInt(R.t, 'u8'))
        w.sync_field('response_to_process').v = some(H.mk_variant(prog, 'ResponseToProcess', 'Partial', presp, SInt(K.t, 'u8')))
        w.paging = dict(chunks=[1], announced=R, done=True)       # the source just answers follow-ups with fresh pages
        co = Cell(it.call('heartbeat', []))
        done = poll_once(it, co)[0] == 'ready'
        info = dict(remaining_follow_ups=R.t, follow_up_index=K.t, requests=[str(x) for x in w.requests])
        if len(w.requests) != 1 or w.requests[0][0] != 'FollowUp':
            cands.add(kernel='i', role='paging-state-does-not-send-one-follow-up-request', model=it.model_ if it.feasible() else None, **info)
            return
        m = check_unsat(it, rep, zterm(w.requests[0][1]) != K.t)
        if m is not None:
            cands.add(kernel='i', role='follow-up-request-number-is-not-the-stored-index', model=m, **info)
            return
        if not done:
            poll_once(it, co)
        rt = w.sync_field('response_to_process').v
        if rt.variant != 1:
            cands.add(kernel='i', role='response-lost-after-a-follow-up-page', model=it.model_ if it.feasible() else None, **info)
            return
        drt = prog.src.find_adt(['ResponseToProcess'])
        inner = rt.fields[0].v
        vname = [v[0] for v in drt.variants if v[3] == inner.variant][0]
        last = it.feasible() and check_unsat(it, rep, K.t + 1 != R.t) is None        # on this path K + 1 = R necessarily
        seen.add((vname, bool(last)))
        if vname == 'Complete':
            m = check_unsat(it, rep, K.t + 1 != R.t)
            if m is not None:
                cands.add(kernel='i', role='block-declared-complete-before-its-last-page', model=m, **info)
                return
            dc = prog.src.find_adt(['types', 'GetSuccessorsCompleteResponse'])
            blocks = inner.fields[0].v.fields[dc.fields.index('blocks')].v.cells
            if len(blocks) != 1 or len(blob_ids(blocks[0].v)) != 2 or blob_ids(blocks[0].v)[0] != 1:
                cands.add(kernel='i', role='reassembled-block-is-not-the-concatenation-of-its-pages', model=it.model_ if it.feasible() else None, **info)
        else:
            m = check_unsat(it, rep, K.t + 1 == R.t)
            if m is not None:
                cands.add(kernel='i', role='complete-block-kept-as-partial', model=m, **info)
                return
            m = check_unsat(it, rep, zterm(inner.fields[1].v.t) != K.t + 1)
            if m is not None:
                cands.add(kernel='i', role='stored-follow-up-index-is-not-incremented', model=m, **info)
                return
            if len(blob_ids(inner.fields[0].v.fields[prog.src.find_adt(['types', 'GetSuccessorsPartialResponse']).fields.index('partial_block')].v)) != 2:
                cands.add(kernel='i', role='page-not-appended', model=it.model_ if it.feasible() else None, **info)

    explore(prog, scenario, stats=st, on_panic=lambda it, e: cands.add(kernel='i', role='trap', model=it.model_ if it.feasible() else None, msg=str(e)[:300]))
    rep.add_stats(st, 'i:follow-up-step-from-an-arbitrary-paging-state')
    if {'Complete', 'Partial'} <= set(x[0] for x in seen):
        rep.cov['witnesses'] += 1
    else:
        rep.inconclusive = 'vacuity: follow-up step outcomes %s' % sorted(map(str, seen))
    rep.sample(dict(kernel='i', outcomes=sorted(map(str, seen)), paths=st.paths))
    return (rep.cov, cands.items, rep.inconclusive)


def worker(job):
    if job == 'step':
        return worker_step(job)
    events, remaining_choices, prefix = job
    prog = PROG
    rep = H.Report(PROP, 'quick')
    cands = Cands()
    st = Stats()
    seen = set()

    def scenario(it):
        run_schedule(it, prog, rep, cands, events, remaining_choices, seen)

    explore(prog, scenario, stats=st, prefixes=[prefix])
    rep.add_stats(st, 's:heartbeat-schedules')
    rep.cov['shapes'] += 1
    return (rep.cov, cands.items, rep.inconclusive, sorted(seen))


def native_script(replies):
    """replies: list of ('complete', n) | ('partial', r) | ('followup',) | ('reject',)"""
    return C.run_native([dict(ops=[dict(op='init', network='regtest', threshold=2), dict(op='fetch_script', replies=replies, heartbeats=len(replies) * 2 + 6)])],
                        tag='c13')[0][-1]


def confirm(cand, known):
    doc = dict(property=PROP, role=cand['role'], summary={k: v for k, v in cand.items() if k not in ('shape',)}, problems=[])
    if cand.get('kernel') == 'i':
        # the real heartbeat with a block split into R + 1 pages (every page carries data): it must be applied, without a trap
        R = cand.get('remaining_follow_ups')
        R = R if isinstance(R, int) and 1 <= R <= 255 else 255
        script = [['partial', R]] + [['followup']] * R + [['complete', 0]] * 2
        res = native_script(script)
        doc['native'] = res
        doc['script'] = 'partial announcing %d follow-ups, %d follow-up pages, two empty complete replies' % (R, R)
        if res.get('traps', 0) > 0 or res.get('applied', 0) != 1:
            doc['problems'].append('a block split into %d pages: %s traps, %s blocks applied (expected 1), last trap: %s' % (R + 1, res.get('traps'), res.get('applied'), res.get('last_trap')))
            return 'violation', doc
        return 'not-reproduced', doc
    # turn the source's log into a reply script for the native mock (GET_SUCCESSORS_RESPONSES) and replay with real heartbeats
    script = []
    for entry in cand.get('log', []):
        e = eval(entry) if isinstance(entry, str) else entry
        if e[0].startswith('complete'):
            script.append(['complete', int(e[0][-1])])
        elif e[0] == 'partial':
            script.append(['partial', cand.get('remaining', [0])[0] if isinstance(cand.get('remaining'), list) and cand.get('remaining') else 0])
        elif e[0] == 'followup':
            script.append(['followup'])
        elif e[0] == 'reject':
            script.append(['reject'])
    # continuation: what a well-behaved source does next
    script += [['followup']] * 2 + [['complete', 1]] * 3
    res = native_script(script)
    doc['native'] = res
    doc['script'] = script
    # every role is judged natively the same way: after the adversarial script and a well-behaved continuation the real
    # heartbeat must not trap and must have applied a block
    if res.get('traps', 0) > 0 or res.get('applied', 0) == 0:
        doc['problems'].append('native heartbeats with reply script %s: %s traps, %s blocks applied, last trap: %s' % (
            script, res.get('traps'), res.get('applied'), res.get('last_trap')))
        for k in known:
            if k['id'] == 'C13-partial-with-zero-follow-ups' and k.get('status') == 'known':
                return 'known:' + k['id'], doc
        return 'violation', doc
    doc['note'] = 'the solver-found schedule does not misbehave natively with this script'
    return 'not-reproduced', doc


def translator_validation(rep):
    """reply scripts through the real heartbeat (mocked block source of the host build)"""
    scripts = [([['complete', 1]], 1), ([['complete', 2]], 2), ([['partial', 1], ['followup']], 1), ([['partial', 2], ['followup'], ['followup']], 1),
               ([['reject'], ['complete', 1]], 1), ([['partial', 0]], 1), ([['complete', 0], ['complete', 1]], 1),
               ([['partial', 3], ['followup'], ['followup'], ['followup'], ['complete', 1]], 2)]
    for script, applied in scripts:
        res = native_script(script)
        if res.get('traps') == 0 and res.get('applied') == applied:
            rep.cov['traces_validated_against_impl'] += 1
        else:
            rep.inconclusive = 'native heartbeat script %s -> %s, expected %d blocks applied and no trap' % (script, res, applied)


def main():
    global PROG
    tier = C.tier()
    rep = H.Report(PROP, tier)
    prog = PROG = H.load_program(['canister'])
    btc.load_dep_decls(prog)
    rep.cov['mir'] = dict(prog.info)
    events = 8 if tier == 'quick' else 10
    remaining = 'symbolic u8 per paged block'
    rep.cov['bounds'] = dict(events_in_adversarial_schedule=events, overlapping_heartbeats=2, announced_follow_ups=remaining,
                             complete_replies='0..2 blocks', then='well-behaved continuation of up to 12 heartbeats',
                             follow_up_step='kernel i: one follow-up step from an arbitrary paging state (announced count and index symbolic u8, index < count)',
                             outside='upgrades while a request is in flight; candid transport; more than two overlapping heartbeats')
    rep.cov['functions_encoded'] = ['heartbeat (coroutine poll fn)', 'maybe_fetch_blocks (coroutine poll fn + closures #0..#3)', 'FetchBlocksGuard::{new,drop}',
                                    'maybe_get_successors_request', 'maybe_process_response', 'state::get_block_hashes', 'BlockTree::get_hashes/collect_hashes']
    rep.cov['stubs'] = btc.stub_docs(STUBS) + [
        'call_get_successors -> recorder returning a leaf future that suspends once; the reply is chosen at delivery',
        'ingest_stable_blocks_into_utxoset -> Done(false) (C03/C08)', 'Block decoding -> identity of the byte blob; insert_block -> recorder (C10)',
        'collect_metrics, maybe_burn_cycles, fee percentiles, data_size, time, histogram -> no-ops / counters', 'with_state(_mut) -> closure on the scenario state']
    rep.assumptions = ['the block source follows the paging protocol (answers Initial with Complete/Partial and FollowUp(i) with the next page) but may reject any request and may announce any listed number of follow-ups',
                       'a trap rolls the message back (IC semantics): a schedule that traps is reported, it is not continued']
    cands = Cands()
    # split the exploration by the first decisions (event 2 choice, first reply) for parallelism
    jobs = [(events, remaining, []), 'step']
    seen = set()
    for part in parallel(jobs, worker):
        merge_partial(rep, cands, part[:3])
        if len(part) > 3:
            seen.update(tuple(x) for x in part[3])
    if len(seen) >= 3:
        rep.cov['witnesses'] += 1
    rep.sample(dict(first_replies_seen=sorted(map(str, seen))[:12]))
    translator_validation(rep)
    settle(rep, PROP, cands, confirm, H.load_known(PROP), cap=6, describe=lambda d: str(d.get('problems'))[:300])
    return rep.finish()


if __name__ == '__main__':
    C.run_check(main)
