#!/usr/bin/env python3
"""C15 - fee percentiles are nearest-rank percentiles of recent best-chain fees.

Kernels (MIR regenerated from /repo):
  p  percentiles(values) for n <= N symbolic values vs. the nearest-rank definition by counting (index 0 = minimum,
     100 = maximum, 101 non-decreasing entries); i: the index arithmetic alone for symbolic n in [1, 10000] and symbolic p
  f  get_fees_per_byte on every fork tree up to the bound with symbolic difficulties, symbolic per-block rate lists and a
     symbolic cut: the most recent rates of best-chain blocks only, newest block first, at most the cut
  c  get_current_fee_percentiles_with_number_of_transactions: cache hit iff same tip hash; no transaction => previous answer
  e  fee rate arithmetic and cached-vs-recomputed path: insert_outpoints' rates equal get_tx_fee_per_byte on the same
     transactions (coinbase excluded), rate = floor(1000 * fee / vsize), on transaction-carrying histories
"""
import os, sys, time, json
import z3
sys.path.insert(0, os.path.dirname(os.path.dirname(os.path.abspath(__file__))))
from checks import common as C
from checks.treelib import *   # noqa: F401,F403
from mirsym.models_std import MODELS

PROP = 'C15'
STUBS = ['print', 'perf_counter', 'blockhash_to_vec', 'blockhash_from']
PROG = None


def count_if(cs):
    return z3.Sum([z3.If(c, 1, 0) for c in cs]) if cs else z3.IntVal(0)


def worker_p(n):
    prog = PROG
    rep = H.Report(PROP, 'quick')
    cands = Cands()
    st = Stats()

    def scenario(it):
        vals = [it.fresh('x%d' % i, 'u64', 0, 1 << 50) for i in range(n)]
        r = it.call('percentiles', [VecV([Cell(v) for v in vals])])
        out = [c.v.t for c in r.cells]
        if n == 0:
            if out:
                cands.add(kernel='p', role='non-empty-answer-for-no-values', model=None, n=n)
            return
        if len(out) != 101:
            cands.add(kernel='p', role='not-101-entries', model=None, n=n, got=len(out))
            return
        xs = [v.t for v in vals]
        bad = []
        for p in (0, 1, 10, 33, 50, 66, 75, 90, 99, 100):
            k = max(1, -(-p * n // 100))
            rp = zterm(out[p])
            okp = z3.And(z3.Or(*[rp == x for x in xs]), count_if([x <= rp for x in xs]) >= k, count_if([x < rp for x in xs]) < k)
            bad.append(z3.Not(okp))
        mono = z3.Or(*[zterm(out[i]) > zterm(out[i + 1]) for i in range(100)])
        m = check_unsat(it, rep, z3.Or(mono, *bad))
        if m is not None:
            cands.add(kernel='p', role='not-nearest-rank', model=m, n=n, values=xs, got=[out[p] for p in (0, 1, 50, 99, 100)])

    explore(prog, scenario, stats=st, on_panic=lambda it, e: cands.add(kernel='p', role='trap', model=it.model_ if it.feasible() else None, n=n, msg=str(e)[:200]))
    rep.add_stats(st, 'p:percentiles')
    rep.cov['witnesses'] += 1
    rep.sample(dict(kernel='p', n=n, paths=st.paths))
    return (rep.cov, cands.items, rep.inconclusive)


def kernel_index(prog, rep, cands):
    """ordinal-rank index arithmetic for symbolic n and p"""
    st = Stats()

    def scenario(it):
        n = it.fresh('n', 'usize', 1, 10000)
        p = it.fresh('p', 'u32', 0, 100)
        idxs = []
        it.overrides['Vec::len'] = lambda it_, k, r, a: n
        it.overrides['<Vec as Index>::index'] = lambda it_, k, r, a: (idxs.append(a[1].t), Ref(Cell(SInt(0, 'u64'))))[1]
        clo = None
        for loc, b in prog.closures.items():
            if b.name == 'percentiles::{closure#1}':
                clo = b
        if clo is None:
            raise Unsupported('percentiles::{closure#1} not found')
        env = Agg('closure', [Cell(Ref(Cell(Opaque('ceil_div')))), Cell(Ref(Cell(VecV())))])
        from mirsym.interp import Closure
        # run the mapping closure: captured = (&ceil_div closure, &values)
        body_env = Closure('x', [Cell(Ref(Cell(Closure(find_closure(prog, 'percentiles::{closure#0}'))))), Cell(Ref(Cell(VecV())))])
        it.run(clo, [Ref(Cell(body_env)), p])
        if len(idxs) != 1:
            raise Unsupported('index not observed')
        idx = zterm(idxs[0])
        k = (p.t * n.t + 99) / 100
        exp = z3.If(k >= 1, k - 1, 0)
        m = check_unsat(it, rep, z3.Or(idx < 0, idx >= n.t, idx != exp))
        if m is not None:
            cands.add(kernel='i', role='rank-index-wrong-or-out-of-bounds', model=m, n=n.t, p=p.t, index=idxs[0])
    explore(prog, scenario, stats=st, on_panic=lambda it, e: cands.add(kernel='i', role='trap', model=it.model_ if it.feasible() else None, msg=str(e)[:200]))
    rep.add_stats(st, 'i:rank-index')


def find_closure(prog, name):
    for loc, b in prog.closures.items():
        if b.name == name:
            return loc
    raise Unsupported('closure %s' % name)


def worker_f(parents):
    prog = PROG
    rep = H.Report(PROP, 'quick')
    cands = Cands()
    st = Stats()
    ts = btc.TreeScenario(parents)
    seen = set()

    def scenario(it):
        btc.install(it, STUBS)
        ts.assume_ranges(it)
        rates = {}
        fr = {}
        for i in range(1, ts.n + 1):
            k = (i * 7 + len(parents)) % 3          # 0, 1 or 2 rates per block (fixed per block id)
            rates[i] = [it.fresh('r%d_%d' % (i, j), 'u64', 0, 1 << 40) for j in range(k)]
            fr[i] = some(VecV([Cell(x) for x in rates[i]]))
        tree = ts.build_tree(it, prog, fee_rates=fr)
        ub = ts.build_unstable(it, prog, SInt(2, 'u32'), 2, tree=tree)
        ubref = Ref(Cell(ub))
        n = it.fresh('cut', 'u32', 0, None)
        chain = it.call('unstable_blocks::get_main_chain', [ubref])
        best = btc.chain_ids(chain)
        vec = it.call('BlockChain::<\'_, CachedBlock>::into_chain', [chain])
        out = it.call('get_fees_per_byte', [vec, ubref, n])
        got = [c.v.t for c in out.cells]
        allr = []
        for b in reversed(best):
            allr.extend(x.t for x in rates[b])
        tip_ok = check_unsat(it, rep, z3.Not(ts.is_best(best[-1]))) is None
        if not tip_ok:
            cands.add(kernel='f', role='fees-not-from-the-best-chain', model=it.model_ if it.feasible() else None, ts=ts, best=best)
            return
        k = len(got)
        seen.add((k, len(allr)))
        conds = [n.t < k] if k else []
        if k < len(allr):
            conds.append(n.t > k)
        conds += [zterm(g) != zterm(e) for g, e in zip(got, allr)]
        if k > len(allr):
            cands.add(kernel='f', role='more-fees-than-best-chain-transactions', model=it.model_ if it.feasible() else None, ts=ts, best=best, k=k)
            return
        if conds:
            m = check_unsat(it, rep, z3.Or(*conds))
            if m is not None:
                cands.add(kernel='f', role='not-the-most-recent-rates-newest-first-up-to-the-cut', model=m, ts=ts, best=best, cut=n.t, got=got, expected=allr[:k])

    explore(prog, scenario, stats=st, on_panic=lambda it, e: cands.add(kernel='f', role='trap', model=it.model_ if it.feasible() else None, ts=ts, msg=str(e)[:200]))
    rep.add_stats(st, 'f:get_fees_per_byte')
    rep.cov['shapes'] += 1
    if len(seen) >= 2:
        rep.cov['witnesses'] += 1
    return (rep.cov, cands.items, rep.inconclusive)


def kernel_cache(prog, rep, cands):
    st = Stats()
    res = []

    def scenario(it):
        btc.install(it, STUBS)
        ts = btc.TreeScenario([1, 1])
        ts.assume_ranges(it)
        tree = ts.build_tree(it, prog)
        ub = ts.build_unstable(it, prog, SInt(2, 'u32'), 2, tree=tree)
        cache_kind = it.choose(3, 'cache')          # none / same tip / other tip
        empty = it.choose(2, 'empty')
        fresh_fees = VecV([] if empty else [Cell(SInt(7, 'u64')), Cell(SInt(9, 'u64'))])
        it.overrides['get_fees_per_byte'] = lambda it_, k, r, a: fresh_fees
        it.overrides['percentiles'] = lambda it_, k, r, a: VecV([Cell(SInt(42, 'u64'))] if a[0].cells else [])
        chain = it.call('unstable_blocks::get_main_chain', [Ref(Cell(ub))])
        tip = btc.chain_ids(chain)[-1]
        old = VecV([Cell(SInt(1, 'u64'))])
        if cache_kind == 0:
            cache = none()
        else:
            cache = some(H.mk_struct(prog, 'FeePercentilesCache', tip_block_hash=btc.bh(tip if cache_kind == 1 else 99), fee_percentiles=old))
        d = prog.src.find_adt(['GenericState'])
        svals = dict(unstable_blocks=ub, fee_percentiles_cache=cache)
        state = Agg('GenericState', [Cell(svals.get(f, Opaque(f))) for f in d.fields])
        out = it.call('get_current_fee_percentiles_with_number_of_transactions', [Ref(Cell(state)), SInt(10000, 'u32')])
        got = [c.v.t for c in out.cells]
        if cache_kind == 1:
            exp = [1]
        elif empty:
            exp = [1] if cache_kind == 2 else []
        else:
            exp = [42]
        if got != exp:
            cands.add(kernel='c', role='cache-logic', model=it.model_ if it.feasible() else None, cache=['none', 'same-tip', 'other-tip'][cache_kind], empty=bool(empty), got=got, expected=exp)
        newc = state.fields[d.fields.index('fee_percentiles_cache')].v
        if cache_kind != 1 and not empty:
            dc = prog.src.find_adt(['FeePercentilesCache'])
            if newc.variant != 1 or btc.bh_id(newc.fields[0].v.fields[dc.fields.index('tip_block_hash')].v) != tip:
                cands.add(kernel='c', role='cache-not-updated-to-the-new-tip', model=None, cache=cache_kind)
        res.append((cache_kind, empty))
    explore(prog, scenario, stats=st, on_panic=lambda it, e: cands.add(kernel='c', role='trap', model=None, msg=str(e)[:200]))
    if len(set(res)) >= 6:
        rep.cov['witnesses'] += 1
    rep.add_stats(st, 'c:cache')


def worker_e(job):
    from checks import histlib as HL
    from mirsym import ledger as L
    parents, content = job
    prog = PROG
    rep = H.Report(PROP, 'quick')
    cands = Cands()
    st = Stats()
    hist = HL.History(parents, content)
    nfees = []

    def scenario(it):
        w = HL.World(it, prog, hist)
        w.push_all()
        ts = hist.ts
        amounts = {'%d:%d' % k: t for k, t in w.val.items()}
        for b in range(1, ts.n + 1):
            # cached at insertion
            cb = None
            from checks.c20 import tree_blocks
            node = find_block(prog, w.ub, b)
            cached = H.get_field(prog, node, 'CachedBlock', 'fee_rates').v
            if cached.variant != 1:
                cands.add(kernel='e', amounts=amounts, role='fee-rates-not-cached-at-insertion', model=None, history=hist.descriptor(), block=b)
                return
            crates = [c.v.t for c in cached.fields[0].v.cells]
            recomputed = []
            for t in w.blocks[b].fields[2].v.cells:
                r = it.call('get_tx_fee_per_byte', [Ref(t), w.ubref])
                if r.variant == 1:
                    recomputed.append(r.fields[0].v.t)
            if len(crates) != len(recomputed):
                cands.add(kernel='e', amounts=amounts, role='cached-and-recomputed-fee-lists-differ-in-length', model=it.model_ if it.feasible() else None, history=hist.descriptor(), block=b,
                          cached=len(crates), recomputed=len(recomputed))
                return
            # independent oracle: floor(1000 * (sum of inputs - sum of outputs) / vsize) per non-coinbase transaction whose fee is >= 0
            exp = []
            for (tid, ins, kinds) in hist.txs_of(b):
                if not ins:
                    continue
                fee = sum((w.val[i] for i in ins), z3.IntVal(0)) - sum((w.val[(tid, oi)] for oi in range(len(kinds))), z3.IntVal(0))
                exp.append(fee)
            nfees.append(len(crates))
            for a, c in zip(crates, recomputed):
                m = check_unsat(it, rep, zterm(a) != zterm(c))
                if m is not None:
                    cands.add(kernel='e', amounts=amounts, role='cached-rate-differs-from-recomputed', model=m, history=hist.descriptor(), block=b)
                    return
            # every listed rate corresponds, in order, to the transactions with non-negative fee
            it.solver.push()
            j = 0
            for fee in exp:
                if it.branch(fee >= 0):
                    if j >= len(crates):
                        cands.add(kernel='e', amounts=amounts, role='fee-paying-transaction-missing-from-rates', model=it.model_ if it.feasible() else None, history=hist.descriptor(), block=b)
                        it.solver.pop()
                        return
                    m = check_unsat(it, rep, zterm(crates[j]) != (1000 * fee) / 100)
                    if m is not None:
                        cands.add(kernel='e', amounts=amounts, role='rate-is-not-floor-1000-fee-over-vsize', model=m, history=hist.descriptor(), block=b)
                        it.solver.pop()
                        return
                    j += 1
            it.solver.pop()

    explore(prog, scenario, stats=st, on_panic=lambda it, e: cands.add(kernel='e', role='trap', model=it.model_ if it.feasible() else None, history=hist.descriptor(), msg=str(e)[:200]))
    rep.add_stats(st, 'e:cached-vs-recomputed')
    if any(n > 0 for n in nfees):
        rep.cov['witnesses'] += 1
    return (rep.cov, cands.items, rep.inconclusive)


def find_block(prog, ub, bid):
    st = [H.get_field(prog, ub, 'GenericUnstableBlocks', 'tree').v]
    while st:
        x = st.pop()
        root = H.get_field(prog, x, 'BlockTree', 'root').v
        if btc.block_id(root) == bid:
            return root
        st.extend(c.v for c in H.get_field(prog, x, 'BlockTree', 'children').v.cells)
    raise Unsupported('block %d not in tree' % bid)


def worker(job):
    if job[0] == 'p':
        return worker_p(job[1])
    if job[0] == 'f':
        return worker_f(job[1])
    return worker_e(job[1])


def confirm(cand, known):
    doc = dict(property=PROP, role=cand['role'], summary={k: v for k, v in cand.items() if k not in ('shape',)}, problems=[cand['role']])
    if cand['kernel'] == 'p' and cand.get('has_model'):
        vals = cand['values']
        got = C.run_native([dict(ops=[dict(op='init', network='regtest', threshold=2), dict(op='percentiles', values=vals)])], tag='c15')[0][-1]
        srt = sorted(vals)
        exp = [srt[max(0, -(-p * len(srt) // 100) - 1)] for p in range(101)]
        doc['native'] = got[:5] if isinstance(got, list) else got
        if got != exp:
            doc['problems'] = ['native percentiles of %s: %s..., nearest rank %s...' % (vals, got[:6] if isinstance(got, list) else got, exp[:6])]
            return 'violation', doc
        return 'not-reproduced', doc
    if cand['kernel'] == 'e' and cand.get('history'):
        # cached-at-insertion vs recomputed natively: the same history with witness-carrying transactions, once straight and once
        # with an upgrade (which drops the per-block fee cache) after the block in question; an empty block is appended so that
        # the tip changes afterwards; the fee percentiles of every later step must be identical
        from checks import histlib as HL
        parents, content = cand['history']
        content = {str(k): v for k, v in content.items()}
        n = len(parents) + 1
        tip = max(range(1, n + 1), key=lambda b: len(btc.TreeScenario(parents).path(b)))
        parents2 = list(parents) + [tip]
        b = cand.get('block') if isinstance(cand.get('block'), int) else n
        vals = {k: v for k, v in (cand.get('amounts') or {}).items() if isinstance(v, int)}
        base = dict(op='history', parents=parents2, content=content, threshold=100, stable=[list(x) for x in HL.STABLE], witness_bytes=60, values=vals,
                    pool={str(k): [list(map(list, v[0])), v[1]] for k, v in HL.POOL.items()})
        r1 = C.run_native([dict(ops=[base])], tag='c15e')[0][-1]
        r2 = C.run_native([dict(ops=[dict(base, upgrade_after=max(b, 1))])], tag='c15e')[0][-1]
        f1 = {s_['after']: s_.get('fees') for s_ in r1.get('steps', [])}
        f2 = {s_['after']: s_.get('fees') for s_ in r2.get('steps', [])}
        doc['native'] = dict(trap=[r1.get('trap'), r2.get('trap')], steps=sorted(f1))
        diff = [k for k in sorted(f1) if k in f2 and k > b and f1[k] != f2[k]]
        if r1.get('trap') or r2.get('trap') or diff:
            k = diff[0] if diff else None
            doc['problems'] = ['fee percentiles after block %s: %s... with the insertion-time cache, %s... recomputed after an upgrade following block %s' % (
                k, (f1.get(k) or [])[:3], (f2.get(k) or [])[:3], b) if diff else 'trap: %s' % str([r1.get('trap'), r2.get('trap')])[:200]]
            return 'violation', doc
        return 'not-reproduced', doc
    return 'violation', doc


def translator_validation(rep):
    r = C.rng()
    scen, exps = [], []
    for _ in range(20):
        n = r.choice([1, 2, 3, 5, 7, 50, 101, 333])
        vals = [r.randint(0, 10 ** 6) for _ in range(n)]
        srt = sorted(vals)
        exps.append([srt[max(0, -(-p * n // 100) - 1)] for p in range(101)])
        scen.append(dict(ops=[dict(op='percentiles', values=vals)]))
    for exp, rr in zip(exps, C.run_native(scen, tag='c15tv')):
        if rr[-1] == exp:
            rep.cov['traces_validated_against_impl'] += 1
        else:
            rep.inconclusive = 'native percentiles differ from nearest rank'


def main():
    global PROG
    tier = C.tier()
    rep = H.Report(PROP, tier)
    prog = PROG = H.load_program(['canister'])
    btc.load_dep_decls(prog)
    rep.cov['mir'] = dict(prog.info)
    NP = 5 if tier == 'quick' else 7
    NT = 5 if tier == 'quick' else 7
    from checks import histlib as HL
    r = C.rng()
    hjobs = HL.history_list(tier, r, 3 if tier == 'quick' else 4, 3 if tier == 'quick' else 8)
    rep.cov['bounds'] = dict(percentile_inputs='0..%d symbolic values (percentiles 0,1,10,33,50,66,75,90,99,100 + monotonicity)' % NP, rank_index='symbolic n in [1, 10000], symbolic p in [0, 100]',
                             fee_selection='trees up to %d blocks, 0..2 symbolic rates per block, symbolic cut' % NT, histories=len(hjobs),
                             outside='vsize of the dependency (symbol), more than 10,000 real transactions (the cut is symbolic instead), eager/lazy switch (heartbeat flag)')
    rep.cov['functions_encoded'] = ['percentiles (+closures)', 'get_fees_per_byte', 'get_tx_fee_per_byte', 'get_current_fee_percentiles_with_number_of_transactions',
                                    'types::fee_rate_per_vbyte', 'insert_outpoints (fee part)', 'CachedBlock::{fee_rates,set_metrics}', 'unstable_blocks::get_main_chain']
    rep.cov['stubs'] = btc.stub_docs(STUBS) + ['slice::sort_unstable -> order-statistics model above 3 symbolic values', 'ledger model for kernel e (vsize = 100; total_size / base_size separate symbols with base <= vsize <= total)', 'Vec::len / Index -> symbolic length / recorder (kernel i)']
    rep.assumptions = ['nearest-rank definition: smallest value with at least ceil(p/100*n) values <= it; p = 0 gives the minimum']
    cands = Cands()
    jobs = [('p', n) for n in range(0, NP + 1)] + [('f', p) for p in shapes_upto(NT, forks_only_above=3)] + [('e', j) for j in hjobs]
    for part in parallel(jobs, worker):
        merge_partial(rep, cands, part)
    kernel_index(prog, rep, cands)
    kernel_cache(prog, rep, cands)
    translator_validation(rep)
    settle(rep, PROP, cands, confirm, H.load_known(PROP), cap=4, describe=lambda d: str(d.get('problems'))[:400])
    return rep.finish()


if __name__ == '__main__':
    C.run_check(main)
