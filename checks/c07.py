#!/usr/bin/env python3
"""C07 - header ranges are exact, ordered and linked across the stable boundary.

Kernels (MIR regenerated from /repo):
  r  verify_and_return_effective_range with start, optional end and the chain height symbolic: the documented errors, and the
     effective range [start, min(end or tip, start + 99)]
  u  GenericUnstableBlocks::get_block_headers_in_range on every fork tree up to the bound with symbolic difficulties and
     stable height: exactly the best-chain headers at the requested heights, in order
  i  get_block_headers_internal with the stable header store as a finite map, in two states: quiescent (heights below the
     stable height are stored) and mid-ingestion (the anchor's header is already stored at the stable height while the
     anchor is still the first unstable block): one header per height of the effective range, each linked to its predecessor
  s  the same question across *real* stabilisations: transaction-carrying blocks arrive one by one, the real
     state::ingest_stable_blocks_into_utxoset (real UTXO ingestion, real BlockHeaderStore::insert_block) runs after each arrival
     and is re-entered while it reports Paused; the slicing predicate pauses at nondeterministically chosen calls; after every
     round every (start, end) is answered by get_block_headers_internal and must give one header per height
"""
import os, sys, time, json
import z3
sys.path.insert(0, os.path.dirname(os.path.dirname(os.path.abspath(__file__))))
from checks import common as C
from checks.treelib import *   # noqa: F401,F403
from checks.c14 import hdr, install_header_hash
from mirsym.models_coll import MapV

PROP = 'C07'
STUBS = ['print', 'perf_counter', 'blockhash_to_vec', 'blockhash_from']
PROG = None


def kernel_range(prog, rep, cands):
    st = Stats()
    seen = set()
    derr = prog.src.find_adt(['ic_btc_interface', 'GetBlockHeadersError'])

    def scenario(it):
        btc.install(it, STUBS)
        tip = it.fresh('chain_height', 'u32', 0, (1 << 31))
        start = it.fresh('start', 'u32', 0, (1 << 31))
        has_end = it.choose(2, 'end') == 0
        end = it.fresh('end', 'u32', 0, (1 << 31)) if has_end else None
        it.overrides['with_state'] = lambda it_, k, r, a: tip
        req = H.mk_struct(prog, 'ic_btc_interface::GetBlockHeadersRequest', start_height=start, end_height=some(end) if has_end else none(), network=Opaque('net'))
        r = it.call('verify_and_return_effective_range', [Ref(Cell(req))])
        s, t = start.t, tip.t
        if r.variant == 0:
            lo, hi = r.fields[0].v.f(0).t, r.fields[0].v.f(1).t
            seen.add('ok')
            upper = (z3.If(end.t <= s + 99, end.t, s + 99)) if has_end else z3.If(t <= s + 99, t, s + 99)
            legal = z3.And(s <= t, z3.And(end.t >= s, end.t <= t) if has_end else z3.BoolVal(True))
            m = check_unsat(it, rep, z3.Or(z3.Not(legal), zterm(lo) != s, zterm(hi) != upper))
            if m is not None:
                cands.add(kernel='r', role='effective-range-wrong', model=m, start=s, end=(end.t if has_end else None), chain_height=t, got=[lo, hi])
            return
        e = r.fields[0].v
        name = [v[0] for v in derr.variants if v[3] == e.variant][0]
        seen.add(name)
        if name == 'StartHeightDoesNotExist':
            cond = s > t
        elif name == 'StartHeightLargerThanEndHeight':
            cond = z3.And(s <= t, end.t < s) if has_end else z3.BoolVal(False)
        elif name == 'EndHeightDoesNotExist':
            cond = z3.And(s <= t, end.t >= s, end.t > t) if has_end else z3.BoolVal(False)
        else:
            cond = z3.BoolVal(False)
        m = check_unsat(it, rep, z3.Not(cond))
        if m is not None:
            cands.add(kernel='r', role='error-without-its-condition', model=m, error=name, start=s, end=(end.t if has_end else None), chain_height=t)

    explore(prog, scenario, stats=st)
    if {'ok', 'StartHeightDoesNotExist', 'StartHeightLargerThanEndHeight', 'EndHeightDoesNotExist'} <= seen:
        rep.cov['witnesses'] += 1
    else:
        rep.inconclusive = 'vacuity: range outcomes %s' % sorted(seen)
    rep.add_stats(st, 'r:effective-range')


def header_ids(prog, vec):
    d = prog.src.find_adt(['bitcoin', 'blockdata', 'block', 'Header'])
    return [deref(c.v).fields[d.fields.index('nonce')].v.t for c in vec.cells]


def worker_u(parents):
    prog = PROG
    rep = H.Report(PROP, 'quick')
    cands = Cands()
    st = Stats()
    ts = btc.TreeScenario(parents)

    def scenario(it):
        btc.install(it, STUBS)
        install_header_hash(it, prog)
        ts.assume_ranges(it)
        sh = it.fresh('stable_h', 'u32', 0, 1 << 30)
        ub = ts.build_unstable(it, prog, SInt(2, 'u32'), 2)
        for i, cb in ts.blocks.items():
            H.get_field(prog, cb, 'CachedBlock', 'header').v = hdr(prog, i, ts.par.get(i, 0))
        ubref = Ref(Cell(ub))
        best = btc.chain_ids(it.call('unstable_blocks::get_main_chain', [ubref]))
        # the range check on the real state: an open-ended request ends at the height of the served chain's tip, a request for
        # that height is accepted and one for the next height is refused (the chain height comes from the real main_chain_height)
        utx = H.mk_struct(prog, 'UtxoSet', utxos=Opaque('utxos'), network=btc.network(prog, 2), address_utxos=Opaque('au'), balances=Opaque('bal'),
                          next_height=sh, should_time_slice=Opaque('sts'), ingesting_block=none())
        dst = prog.src.find_adt(['GenericState'])
        stv = dict(utxos=utx, unstable_blocks=ub)
        state = Agg('GenericState', [Cell(stv.get(f, Opaque(f))) for f in dst.fields])
        sref_ = Ref(Cell(state))
        it.overrides['with_state'] = lambda it_, k, r, a: it_.call_value(a[0], [sref_])
        tip_h = sh.t + len(best) - 1
        for (st_, en_, want_ok) in ((sh.t, None, True), (tip_h, tip_h, True), (tip_h + 1, None, False), (sh.t, tip_h + 1, False)):
            req = H.mk_struct(prog, 'ic_btc_interface::GetBlockHeadersRequest', start_height=SInt(st_, 'u32'),
                              end_height=(some(SInt(en_, 'u32')) if en_ is not None else none()), network=Opaque('net'))
            rr = it.call('verify_and_return_effective_range', [Ref(Cell(req))])
            if (rr.variant == 0) != want_ok:
                cands.add(kernel='u', role='range-check-disagrees-with-served-chain-height', ts=ts, model=it.model_ if it.feasible() else None, best=best,
                          request=[str(st_), str(en_)], accepted=rr.variant == 0)
                return
            if want_ok and en_ is None:
                eff = rr.fields[0].v
                m = check_unsat(it, rep, z3.Or(zterm(eff.fields[0].v.t) != zterm(st_), zterm(eff.fields[1].v.t) != z3.If(tip_h < zterm(st_) + 99, tip_h, zterm(st_) + 99)))
                if m is not None:
                    cands.add(kernel='u', role='open-ended-range-does-not-end-at-the-served-tip', ts=ts, model=m, best=best)
                    return
        a = it.choose(len(best), 'from')
        b = a + it.choose(len(best) - a, 'to')
        rng_ = Agg('RangeInclusive', [Cell(SInt(sh.t + a, 'u32')), Cell(SInt(sh.t + b, 'u32'))])
        out = it.call('GenericUnstableBlocks::<BlockTree<CachedBlock>>::get_block_headers_in_range', [ubref, sh, rng_])
        from mirsym.models_std import drain
        got = [deref(h).fields[prog.src.find_adt(['bitcoin', 'blockdata', 'block', 'Header']).fields.index('nonce')].v.t for h in drain(it, out)]
        if got != best[a:b + 1]:
            cands.add(kernel='u', role='unstable-range-differs-from-best-chain', ts=ts, model=it.model_ if it.feasible() else None, best=best, offsets=[a, b], got=got)
            return
        m = check_unsat(it, rep, z3.Not(ts.is_best(best[-1])))
        if m is not None:
            cands.add(kernel='u', role='headers-not-from-the-best-chain', ts=ts, model=m, best=best)

    explore(prog, scenario, stats=st, on_panic=lambda it, e: cands.add(kernel='u', role='trap', ts=ts, model=it.model_ if it.feasible() else None, msg=str(e)[:200]))
    rep.add_stats(st, 'u:unstable-range')
    rep.cov['shapes'] += 1
    return (rep.cov, cands.items, rep.inconclusive)


def worker_i(job):
    """get_block_headers_internal across the stable boundary; `mid` = the anchor's header is already in the store"""
    chain_len, stable_n, mid = job
    prog = PROG
    rep = H.Report(PROP, 'quick')
    cands = Cands()
    st = Stats()
    ts = btc.TreeScenario([i for i in range(1, chain_len)])     # a bare chain of unstable blocks 1..chain_len
    seen = set()

    def scenario(it):
        btc.install(it, STUBS)
        install_header_hash(it, prog)
        concretize_ts(ts, {i: 1 for i in ts.d})
        sh = SInt(stable_n, 'u32')                  # stable heights 0..stable_n-1, unstable block k at height stable_n + k - 1
        ub = ts.build_unstable(it, prog, SInt(2, 'u32'), 2)
        # stable headers have ids 1000+h; the anchor (block 1) links to the last stable one
        for i, cb in ts.blocks.items():
            prev = ts.par.get(i, 1000 + stable_n - 1 if stable_n else 0)
            H.get_field(prog, cb, 'CachedBlock', 'header').v = hdr(prog, i, prev)
        heights = MapV('StableBTreeMap')
        headers = MapV('StableBTreeMap')
        for h in range(stable_n):
            heights.insert(it, SInt(h, 'u32'), btc.bh(1000 + h))
            headers.insert(it, btc.bh(1000 + h), Agg('BlockHeaderBlob', [Cell(VecV([Cell(SInt(1000 + h, 'u64')), Cell(SInt(1000 + h - 1 if h else 0, 'u64'))]))]))
        if mid:
            heights.insert(it, SInt(stable_n, 'u32'), btc.bh(1))
            headers.insert(it, btc.bh(1), Agg('BlockHeaderBlob', [Cell(VecV([Cell(SInt(1, 'u64')), Cell(SInt(1000 + stable_n - 1 if stable_n else 0, 'u64'))]))]))
        store = H.mk_struct(prog, 'BlockHeaderStore', block_headers=headers, block_heights=heights)
        utxos = H.mk_struct(prog, 'UtxoSet', utxos=Opaque('utxos'), network=btc.network(prog, 2), address_utxos=Opaque('au'),
                            balances=Opaque('bal'), next_height=sh, should_time_slice=Opaque('sts'),
                            ingesting_block=(some(Opaque('ingesting')) if mid else none()))
        d = prog.src.find_adt(['GenericState'])
        svals = dict(utxos=utxos, unstable_blocks=ub, stable_block_headers=store)
        state = Agg('GenericState', [Cell(svals.get(f, Opaque(f))) for f in d.fields])
        sref = Ref(Cell(state))
        it.overrides['with_state'] = lambda it_, k, r, a: it_.call_value(a[0], [sref])
        # header blobs: (id, prev id); serialising an unstable header gives the same pair
        dh = prog.src.find_adt(['bitcoin', 'blockdata', 'block', 'Header'])
        it.overrides['<Vec as From>::from'] = lambda it_, k, r, a: a[0].f(0) if isinstance(a[0], Agg) and a[0].ty == 'BlockHeaderBlob' else a[0]
        it.overrides['<BlockHeaderBlob as Into>::into'] = lambda it_, k, r, a: a[0].f(0)

        def enc(it_, k, r, a):
            h = deref(a[0])
            deref(a[1]).cells.extend([Cell(SInt(h.fields[dh.fields.index('nonce')].v.t, 'u64')),
                                      Cell(SInt(btc.bh_id(h.fields[dh.fields.index('prev_blockhash')].v), 'u64'))])
            return ok(SInt(80, 'usize'))
        it.overrides['<Header as Encodable>::consensus_encode'] = enc
        tip_h = stable_n + chain_len - 1
        s = it.choose(tip_h + 1, 'start')
        e = s + it.choose(tip_h - s + 1, 'end')
        req = H.mk_struct(prog, 'ic_btc_interface::GetBlockHeadersRequest', start_height=SInt(s, 'u32'), end_height=some(SInt(e, 'u32')), network=Opaque('net'))
        r = it.call('get_block_headers_internal', [Ref(Cell(req))])
        if r.variant != 0:
            cands.add(kernel='i', role='in-range-request-refused', model=None, chain_len=chain_len, stable=stable_n, mid=mid, start=s, end=e)
            return
        resp = r.fields[0].v.f(0)
        dr = prog.src.find_adt(['ic_btc_interface', 'GetBlockHeadersResponse'])
        hs = [(c.v.cells[0].v.t, c.v.cells[1].v.t) for c in resp.fields[dr.fields.index('block_headers')].v.cells]
        exp = [(1000 + h) if h < stable_n else (h - stable_n + 1) for h in range(s, e + 1)]
        seen.add((s < stable_n, e >= stable_n))
        info = dict(chain_len=chain_len, stable=stable_n, mid_ingestion=bool(mid), start=s, end=e, got=[x[0] for x in hs], expected=exp)
        if [x[0] for x in hs] != exp:
            cands.add(kernel='i', role='headers-differ-from-one-per-height' + ('-mid-ingestion' if mid else ''), model=None, **info)
            return
        if any(hs[k + 1][1] != hs[k][0] for k in range(len(hs) - 1)):
            cands.add(kernel='i', role='headers-not-linked', model=None, **info)

    explore(prog, scenario, stats=st, on_panic=lambda it, e: cands.add(kernel='i', role='trap', model=None, chain_len=chain_len, stable=stable_n, mid=mid, msg=str(e)[:200]))
    rep.add_stats(st, 'i:across-the-boundary')
    if (True, True) in seen:
        rep.cov['witnesses'] += 1
    return (rep.cov, cands.items, rep.inconclusive)


def worker_s(job):
    """headers across real stabilisations: blocks arrive one by one, state::ingest_stable_blocks_into_utxoset (real, with the real
    UTXO ingestion and the real BlockHeaderStore::insert_block) runs after each arrival and is re-entered while it reports Paused;
    the slicing predicate pauses at nondeterministically chosen calls (at most `budget` pauses).  After every call - paused or
    finished - every range request is answered by get_block_headers_internal and compared with one header per height"""
    n, thr, content, budget = job
    from checks import histlib as HL
    from mirsym import ledger as L
    prog = PROG
    rep = H.Report(PROP, 'quick')
    cands = Cands()
    st = Stats()
    hist = HL.History([i for i in range(1, n)], content)
    SH0 = 3
    seen = set()
    info = dict(blocks=n, threshold=thr, content={str(k): v for k, v in content.items()})

    def scenario(it):
        from checks.c20 import tree_blocks
        state_ = dict(left=budget, calls=0, pauses=[])

        def slicer(it_):
            state_['calls'] += 1
            if state_['calls'] == 1 or state_['left'] <= 0:
                return False            # the first call of a round never pauses (the instruction counter starts at 0)
            if it_.choose(2, 'pause') == 1:
                state_['left'] -= 1
                state_['pauses'].append(state_['calls'])
                return True
            return False
        w = HL.World(it, prog, hist, thr=SInt(thr, 'u32'), sh=SH0, slicer=slicer)
        install_header_hash(it, prog)
        heights = MapV('StableBTreeMap')
        headers = MapV('StableBTreeMap')
        for h in range(SH0):
            heights.insert(it, SInt(h, 'u32'), btc.bh(1000 + h))
            headers.insert(it, btc.bh(1000 + h), Agg('BlockHeaderBlob', [Cell(VecV([Cell(SInt(1000 + h, 'u64')), Cell(SInt(1000 + h - 1 if h else 0, 'u64'))]))]))
        store = H.mk_struct(prog, 'BlockHeaderStore', block_headers=headers, block_heights=heights)
        d = prog.src.find_adt(['GenericState'])
        dm = prog.src.find_adt(['metrics', 'Metrics'])
        metrics = Agg('Metrics', [Cell(Opaque(f)) for f in dm.fields])
        svals = dict(utxos=w.us, unstable_blocks=w.ub, stable_block_headers=store, metrics=metrics)
        state = Agg('GenericState', [Cell(svals.get(f, Opaque(f))) for f in d.fields])
        sref = Ref(Cell(state))
        it.overrides['with_state'] = lambda it_, k, r, a: it_.call_value(a[0], [sref])
        it.overrides['NextBlockHeaders::remove_until_height'] = lambda it_, k, r, a: UNIT
        it.overrides['NextBlockHeaders::remove'] = lambda it_, k, r, a: UNIT
        dh = prog.src.find_adt(['bitcoin', 'blockdata', 'block', 'Header'])
        it.overrides['<Vec as From>::from'] = lambda it_, k, r, a: a[0].f(0) if isinstance(a[0], Agg) and a[0].ty == 'BlockHeaderBlob' else a[0]
        it.overrides['<BlockHeaderBlob as Into>::into'] = lambda it_, k, r, a: a[0].f(0)
        it.overrides['<BlockHeaderBlob as From>::from'] = lambda it_, k, r, a: Agg('BlockHeaderBlob', [Cell(a[0])])

        def enc(it_, k, r, a):
            h = deref(a[0])
            deref(a[1]).cells.extend([Cell(SInt(h.fields[dh.fields.index('nonce')].v.t, 'u64')),
                                      Cell(SInt(btc.bh_id(h.fields[dh.fields.index('prev_blockhash')].v), 'u64'))])
            return ok(SInt(80, 'usize'))
        it.overrides['<Header as Encodable>::consensus_encode'] = enc
        dr = prog.src.find_adt(['ic_btc_interface', 'GetBlockHeadersResponse'])
        dsl = prog.src.find_adt(['types', 'Slicing'])

        def check_all(present_n, when):
            tip_h = SH0 + present_n - 1
            exp_all = [(1000 + h) if h < SH0 else (h - SH0 + 1) for h in range(tip_h + 1)]
            for s_ in range(tip_h + 1):
                for e_ in range(s_, tip_h + 1):
                    req = H.mk_struct(prog, 'ic_btc_interface::GetBlockHeadersRequest', start_height=SInt(s_, 'u32'), end_height=some(SInt(e_, 'u32')), network=Opaque('net'))
                    r = it.call('get_block_headers_internal', [Ref(Cell(req))])
                    if r.variant != 0:
                        cands.add(kernel='s', role='in-range-request-refused-around-a-stabilisation', model=None, when=when, start=s_, end=e_, pauses=list(state_['pauses']), **info)
                        return False
                    resp = r.fields[0].v.f(0)
                    hs = [c.v.cells[0].v.t for c in resp.fields[dr.fields.index('block_headers')].v.cells]
                    if hs != exp_all[s_:e_ + 1]:
                        cands.add(kernel='s', role='headers-differ-from-one-per-height-around-a-stabilisation', model=None, when=when, start=s_, end=e_, got=hs,
                                  expected=exp_all[s_:e_ + 1], pauses=list(state_['pauses']), **info)
                        return False
            return True

        present = 1
        if not check_all(present, 'start'):
            return
        for b in range(2, n + 1):
            w.push(b)
            present += 1
            rounds = 0
            while True:
                rounds += 1
                state_['calls'] = 0
                r = it.call('state::ingest_stable_blocks_into_utxoset', [sref])
                paused = r.variant == [x[3] for x in dsl.variants if x[0] == 'Paused'][0]
                seen.add('paused' if paused else 'done')
                if not check_all(present, 'after block %d, ingestion round %d (%s)' % (b, rounds, 'paused' if paused else 'finished')):
                    return
                if not paused:
                    break
                if rounds > budget + 2:
                    cands.add(kernel='s', role='ingestion-does-not-finish', model=None, **info)
                    return
        if len(tree_blocks(prog, w.ub)) < n:
            seen.add('stabilised')
        return len(state_['pauses'])

    explore(prog, scenario, stats=st, on_panic=lambda it, e: cands.add(kernel='s', role='trap', model=None, msg=str(e)[:300], **info))
    rep.add_stats(st, 's:across-real-stabilisations')
    rep.cov['shapes'] += 1
    if {'paused', 'done', 'stabilised'} <= seen:
        rep.cov['witnesses'] += 1
    else:
        cands.add(kernel='s', role='no-paused-stabilisation-reached', model=None, vacuity=True, seen=sorted(seen), **info)
    rep.sample(dict(kernel='s', blocks=n, threshold=thr, transactions_per_block=content, pause_budget=budget, paths=st.paths))
    return (rep.cov, cands.items, rep.inconclusive)


def worker(job):
    return dict(u=worker_u, i=worker_i, s=worker_s)[job[0]](job[1])


def native_headers(mid, start, end, n_unstable=3):
    """real canister: a chain, part of it stable, optionally paused in the middle of ingesting the next anchor"""
    ops = [dict(op='headers_across_boundary', unstable=n_unstable, pause=bool(mid), resume=True, start=start, end=end)]
    return C.run_native([dict(ops=ops)], tag='c07')[0][-1]


def confirm(cand, known):
    doc = dict(property=PROP, role=cand['role'], summary={k: v for k, v in cand.items() if k not in ('shape',)}, problems=[])
    if cand.get('native'):
        doc['problems'] = cand['problems']
        return 'violation', doc
    if cand['kernel'] in ('i', 's'):
        res = native_headers(cand.get('mid_ingestion', True), None, None)
        doc['native'] = res
        bad = [q for q in res.get('queries', []) if q.get('problem')]
        if bad:
            doc['problems'] = ['native get_block_headers: %s' % bad[:2]]
            for k in known:
                if k['id'] == 'C07-anchor-header-twice-during-ingestion' and k.get('status') == 'known' and cand['role'].endswith('-mid-ingestion'):
                    return 'known:' + k['id'], doc
            return 'violation', doc
        return 'not-reproduced', doc
    if cand['kernel'] == 'u' and cand.get('shape') and cand.get('diffs'):
        # the real endpoint on the real tree: an open-ended request from height 0 returns the served chain, one header per height
        ts = btc.TreeScenario(list(cand['shape'][1]))
        diffs = {int(k): v for k, v in cand['diffs'].items()}
        res = C.run_native([dict(ops=native_ops(ts, diffs, thr=1000, extra=[dict(op='main_chain'), dict(op='headers', start=0)]))], tag='c07u')[0]
        mc, hd = res[-2], res[-1]
        doc['native'] = dict(main_chain=mc, headers=hd)
        chain = mc.get('chain') if isinstance(mc, dict) else None
        if not chain or 'err' in hd or hd.get('headers') != chain or hd.get('tip_height') != len(chain) - 1:
            doc['problems'].append('served chain %s but get_block_headers(0, none) = %s' % (chain, hd))
            return 'violation', doc
        return 'not-reproduced', doc
    doc['problems'].append(cand['role'])
    return 'violation', doc


def translator_validation(rep, cands):
    """the real canister: quiescent, paused in the middle of ingesting the anchor, and after the paused ingestion finished"""
    for mid in (False, True):
        for nu in (2, 3):
            res = native_headers(mid, None, None, nu)
            qs = res.get('queries', []) if isinstance(res, dict) else []
            bad = [q for q in qs if q.get('problem')]
            if mid and not res.get('paused'):
                rep.inconclusive = 'native run did not pause: %s' % str(res)[:200]
            elif qs and not bad:
                rep.cov['traces_validated_against_impl'] += len(qs)
            else:
                cands.add(kernel='n', role='native-headers-' + ('around-a-paused-ingestion' if mid else 'quiescent'), model=None, native=True, mid_ingestion=mid, unstable=nu,
                          problems=[str(q) for q in bad[:3]] or [str(res)[:300]])


def main():
    global PROG
    tier = C.tier()
    rep = H.Report(PROP, tier)
    prog = PROG = H.load_program(['canister'])
    btc.load_dep_decls(prog)
    rep.cov['mir'] = dict(prog.info)
    N = 5 if tier == 'quick' else 6
    rep.cov['bounds'] = dict(range_arithmetic='start, end, chain height symbolic < 2^31', trees=N, boundary='unstable chains of 1..3 blocks over 0..3 stable headers, every (start, end) in range, quiescent and mid-ingestion',
                             stabilisations='kernel s: chains of 3..5 transaction-carrying blocks arriving one by one over 3 stable headers, threshold 1..3, real ingestion with up to 1 (quick) / 2 (thorough) nondeterministically placed pauses, every (start, end) after every ingestion round',
                             outside='80-byte encoding of a header (dependency); ranges longer than the modelled chain (the 100-header cap is decided symbolically in kernel r)')
    rep.cov['functions_encoded'] = ['verify_and_return_effective_range', 'get_block_headers_internal (+closures)', 'GenericUnstableBlocks::get_block_headers_in_range',
                                    'BlockHeaderStore::{get_block_headers_in_range,insert_block,insert}', 'unstable_blocks::get_main_chain', 'state::main_chain_height', 'state::ingest_stable_blocks_into_utxoset (+ UtxoSet::ingest_block / ingest_block_continue, unstable_blocks::{push,pop,peek})']
    rep.cov['stubs'] = btc.stub_docs(STUBS) + ['StableBTreeMap -> ordered association list', 'header bytes = (id, previous id)', 'Header::block_hash -> injective id']
    rep.assumptions = ['mid-ingestion state = what ingest_stable_blocks_into_utxoset leaves when ingest_block pauses: header stored at next_height, next_height unchanged, anchor still first unstable block']
    cands = Cands()
    kernel_range(prog, rep, cands)
    jobs = [('u', p) for p in shapes_upto(N, forks_only_above=3)]
    for cl in (1, 2, 3):
        for sn in (0, 1, 3):
            for mid in (0, 1):
                jobs.append(('i', (cl, sn, mid)))
    jobs.append(('s', (3, 1, {1: [10], 2: [11]}, 1)))
    jobs.append(('s', (4, 2, {1: [10]}, 1)))
    if tier != 'quick':
        jobs.append(('s', (4, 2, {1: [10], 2: [11]}, 2)))
        jobs.append(('s', (4, 1, {1: [], 2: [10, 12]}, 2)))
        jobs.append(('s', (5, 3, {1: [10, 12], 2: [13]}, 1)))
    for part in parallel(jobs, worker):
        merge_partial(rep, cands, part)
    translator_validation(rep, cands)
    settle(rep, PROP, cands, confirm, H.load_known(PROP), cap=3, describe=lambda d: str(d.get('problems'))[:400])
    return rep.finish()


if __name__ == '__main__':
    C.run_check(main)
