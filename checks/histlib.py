"""Histories of transaction-carrying blocks for the ledger kernels (C01 k2/k3, C05 c, C15, C20).

A history = a stable set + an arrival-ordered tree of unstable blocks; each block = coinbase + a selection from a pool of
transactions that is transaction-valid on the block's own chain (inputs exist unspent there, a transaction is not included
twice on one chain).  The *structure* (tree, which transaction where) is concrete and enumerated / sampled with VERIF_SEED;
amounts and the stable height are symbolic.  The real state is built by executing UnstableBlocks::new and
unstable_blocks::push from the MIR; `Oracle` is an independent python ledger over the same symbols.
"""
import os, sys, random
import z3
sys.path.insert(0, os.path.dirname(os.path.dirname(os.path.abspath(__file__))))
from checks.treelib import *   # noqa: F401,F403
from checks.c03 import CacheNative
from mirsym import ledger as L
from mirsym.models_coll import MapV

STUBS = ['print', 'perf_counter', 'blockhash_to_vec', 'blockhash_from']
ADDRS = ['A', 'B']
# stable set: (txid, vout, kind, height offset below the stable height)
STABLE = [(1, 0, 'A', 3), (1, 1, 'B', 3), (2, 0, 'A', 1)]
# pool of non-coinbase transactions: id -> (inputs [(txid, vout)], output kinds)
POOL = {
    10: ([(1, 0)], ['A', 'B']),          # spends stable A
    11: ([(1, 1)], ['A']),               # spends stable B
    12: ([(10, 0)], ['B']),              # spends 10:0
    13: ([(10, 1), (2, 0)], ['A', '']),  # spends 10:1 and stable
    14: ([(2, 0)], ['OP_RETURN', 'B']),  # conflicts with 13 on (2,0)
}
SAMPLE_POOL = sorted(POOL)      # what valid_histories samples from (kept fixed so that seeds stay comparable)
# a wide transaction: 257 outputs, of which vout 1, 2 and 256 pay A (the rest are non-standard scripts): the stable index orders
# vout by its little-endian bytes (256 < 1 < 2), see C06
WIDE = 15
POOL[WIDE] = ([(1, 1)], ['A' if v in (1, 2, 256) else '' for v in range(257)])


def coinbase_id(block):
    return 200 + block


class History:
    def __init__(self, parents, content):
        """content: {block id: [pool tx ids in order]}"""
        self.parents = list(parents)
        self.ts = btc.TreeScenario(self.parents)
        self.content = {b: list(content.get(b, [])) for b in range(1, self.ts.n + 1)}

    def descriptor(self):
        return (self.parents, {b: self.content[b] for b in self.content})

    def txs_of(self, b):
        """[(txid, inputs, output kinds)] of block b, coinbase first"""
        out = [(coinbase_id(b), [], ['A' if b % 2 else 'B'])]
        for t in self.content[b]:
            out.append((t, POOL[t][0], POOL[t][1]))
        return out


def valid_histories(parents, r, count):
    """sample transaction-valid assignments of pool transactions to the blocks of the tree"""
    ts = btc.TreeScenario(parents)
    out = []
    seen = set()
    tries = 0
    while len(out) < count and tries < count * 40:
        tries += 1
        content = {}
        okall = True
        for b in range(1, ts.n + 1):
            chain = ts.path(b)[:-1]
            included = [t for a in chain for t in content.get(a, [])]
            spent = set(i for t in included for i in POOL[t][0])
            created = set((t, k) for t in included for k in range(len(POOL[t][1]))) | set((s[0], s[1]) for s in STABLE)
            mine = []
            for t in r.sample(SAMPLE_POOL, len(SAMPLE_POOL)):
                if r.random() < 0.45:
                    continue
                if t in included or t in mine:
                    continue
                ins = POOL[t][0]
                avail = created | set((m, k) for m in mine for k in range(len(POOL[m][1])))
                myspent = spent | set(i for m in mine for i in POOL[m][0])
                if all(i in avail and i not in myspent for i in ins):
                    mine.append(t)
            content[b] = mine
        key = tuple(tuple(content[b]) for b in sorted(content))
        if key in seen:
            continue
        seen.add(key)
        out.append(History(parents, content))
    return out


def enumerate_histories(parents, cap=None):
    """every transaction-valid assignment of pool transactions (SAMPLE_POOL, each block's transactions in pool-id order, which
    respects the spend dependencies) to the blocks of the tree, in a fixed order; at most `cap` of them, evenly spread"""
    ts = btc.TreeScenario(parents)
    out = []

    def rec(b, content):
        if b > ts.n:
            out.append(History(parents, content))
            return
        chain = ts.path(b)[:-1]
        included = [t for a in chain for t in content.get(a, [])]
        spent0 = set(i for t in included for i in POOL[t][0])
        created0 = set((t, k) for t in included for k in range(len(POOL[t][1]))) | set((s[0], s[1]) for s in STABLE)

        def pick(idx, mine):
            if idx == len(SAMPLE_POOL):
                c2 = dict(content)
                c2[b] = list(mine)
                rec(b + 1, c2)
                return
            t = SAMPLE_POOL[idx]
            pick(idx + 1, mine)
            if t in included:
                return
            avail = created0 | set((m, k) for m in mine for k in range(len(POOL[m][1])))
            myspent = spent0 | set(i for m in mine for i in POOL[m][0])
            if all(i in avail and i not in myspent for i in POOL[t][0]):
                pick(idx + 1, mine + [t])
        pick(0, [])
    rec(1, {})
    if cap is not None and len(out) > cap:
        step = len(out) / float(cap)
        out = [out[int(i * step)] for i in range(cap)]
    return out


def history_list(tier, r, N, per_shape, enum_quick=6):
    """[(parents, content)]: handcrafted + VERIF_SEED samples per tree shape up to N blocks + the exhaustive enumeration of the trees
    with up to 3 blocks (all 958 in the thorough tier, `enum_quick` evenly spread per shape in the quick tier); duplicates removed"""
    from checks.treelib import shapes_upto
    out = [(p, c) for p, c in HANDCRAFTED]
    for parents in shapes_upto(N):
        if parents:
            out += [(h.parents, h.content) for h in valid_histories(parents, r, per_shape)]
    for parents in shapes_upto(3):
        if parents:
            out += [(h.parents, h.content) for h in enumerate_histories(parents, None if tier != 'quick' else enum_quick)]
    seen = set()
    return [j for j in out if not (repr(j) in seen or seen.add(repr(j)))]


HANDCRAFTED = [
    # same transaction confirmed at different heights on competing forks (10 in block 2 at height+1, and in block 4 at height+2)
    ([1, 1, 3], {2: [10], 3: [], 4: [10]}),
    # output created on one fork and spent on both forks' descendants; conflicting spends of (2,0) on two forks
    ([1, 1], {1: [10], 2: [13], 3: [14]}),
    # same-block create-and-spend, then spend across a fork
    ([1, 2, 2], {1: [], 2: [10, 12], 3: [13], 4: [11]}),
    ([1], {1: [11], 2: [10, 12, 13]}),
    # the same transaction on two forks, and the later-arriving fork also spends its output in the same block
    ([1, 1], {1: [], 2: [10], 3: [10, 12]}),
    # both forks carry the same create-and-spend pair; a descendant spends across
    ([1, 1, 2], {1: [], 2: [10, 12], 3: [10, 12], 4: [13]}),
    # shared transaction first seen with its same-block spend, then alone on the competing fork, forks of unequal length
    ([1, 1, 3, 4], {1: [], 2: [10, 12], 3: [10], 4: [13], 5: [11]}),
    # a discarded fork that itself forks (block 2 with children 3 and 4) below a main branch 5-6-7 that stabilises: every body,
    # delta and cached output of the whole discarded subtree has to go, not only those along one of its branches
    ([1, 1, 2, 2, 3, 6, 7], {1: [], 2: [10], 3: [10], 4: [], 5: [], 6: [], 7: [], 8: []}),
    # two discarded sibling forks, one of them two blocks long
    ([1, 1, 2, 1, 5, 6], {1: [], 2: [10], 3: [], 4: [], 5: [10], 6: [], 7: []}),
]


class World:
    """the real state built through the MIR"""
    def __init__(self, it, prog, hist, thr=None, net=2, difficulties=None, sh=None, slicer=None):
        self.it, self.prog, self.hist = it, prog, hist
        btc.install(it, STUBS)
        led = self.led = L.Ledger(it, prog, net)
        ts = hist.ts
        self.sh = it.fresh('stable_h', 'u32', 10, 1 << 30) if sh is None else SInt(sh, 'u32')
        us = self.us = led.utxo_set(self.sh, slicer)
        self.val = {}
        for k, (t, v, kind, below) in enumerate(STABLE):
            val = it.fresh('sv%d' % k, 'u64', 0, 1 << 50)
            self.val[(t, v)] = val.t
            led.seed_utxo(us, t, v, val, kind, SInt(self.sh.t - below, 'u32'))
        self.blocks = {}
        for b in range(1, ts.n + 1):
            txs = []
            for (tid, ins, kinds) in hist.txs_of(b):
                outs = []
                for oi, kind in enumerate(kinds):
                    if (tid, oi) not in self.val:
                        # the 257-output transaction carries concrete amounts (what it is there for is the order of its
                        # outputs; symbolic amounts would fork every page boundary of a 2.5 M-step history)
                        self.val[(tid, oi)] = (1000 * tid + oi) if tid == WIDE else it.fresh('v%d_%d' % (tid, oi), 'u64', 0, 1 << 50).t
                    outs.append((SInt(self.val[(tid, oi)], 'u64'), kind))
                txs.append(led.tx(tid, ins, outs))
            self.blocks[b] = led.block(b, ts.par.get(b, 0), txs)
        self.cache = CacheNative([], btc.network(prog, net))
        self.cache.blocks = {}
        cache = self.cache

        def cache_call(it_, trait, method, args, _orig=CacheNative.mcall):
            if method == 'insert':
                i = btc.bh_id(args[1])
                if i in cache.ids:
                    return False
                cache.ids.add(i)
                cache.blocks[i] = args[2]
                return True
            if method == 'get':
                i = btc.bh_id(args[1])
                return some(cache.blocks[i]) if i in cache.ids else none()
            return _orig(cache, it_, trait, method, args)
        cache.mcall = cache_call
        ov = it.overrides
        ov['Block::difficulty'] = lambda it_, k, r, a: SInt((difficulties or {}).get(deref(a[0]).fields[0].v.t, 1), 'u128')
        self.thr = thr if thr is not None else SInt(100, 'u32')
        usref = Ref(Cell(us))
        self.usref = usref
        ub = it.call('GenericUnstableBlocks::<BlockTree<CachedBlock>>::new', [cache, usref, self.thr, self.blocks[1], btc.network(prog, net)])
        self.ub = ub
        self.ubref = Ref(Cell(ub))
        self.present = [1]

    def push(self, b):
        r = self.it.call('unstable_blocks::push', [self.ubref, self.usref, self.blocks[b]])
        if r.variant != 0:
            raise Unsupported('push of a connected block failed')
        self.present.append(b)

    def push_all(self):
        for b in range(2, self.hist.ts.n + 1):
            self.push(b)

    def field(self, name):
        return H.get_field(self.prog, self.ub, 'GenericUnstableBlocks', name).v

    # ---- bookkeeping snapshot (C20)
    def bookkeeping(self):
        prog = self.prog
        oc = self.field('outpoints_cache')
        d = prog.src.find_adt(['outpoints_cache', 'OutPointsCache'])
        g = lambda f: oc.fields[d.fields.index(f)].v
        dinfo = prog.src.find_adt(['outpoints_cache', 'TxOutInfo'])
        tx_outs = {}
        for k, c in g('tx_outs').entries:
            tx_outs[L.op_key(k)] = dict(count=c.v.fields[dinfo.fields.index('count')].v.t, height=c.v.fields[dinfo.fields.index('height')].v.t,
                                        value=c.v.fields[dinfo.fields.index('txout')].v.fields[0].v.t)
        added = {btc.bh_id(k): {a.fields[0].v.s: [L.op_key(x.v) for x in c2.v.cells] for a, c2 in c.v.entries} for k, c in g('added_outpoints').entries}
        removed = {btc.bh_id(k): {a.fields[0].v.s: [L.op_key(x.v) for x in c2.v.cells] for a, c2 in c.v.entries} for k, c in g('removed_outpoints').entries}
        tips = sorted(c.v.t for c in self.field('tip_depths_cache').cells)
        return dict(tx_outs=tx_outs, added=added, removed=removed, cache_ids=sorted(self.cache.ids), tips=tips)


class Oracle:
    """independent ledger: apply the blocks of one chain in order"""
    def __init__(self, hist, world):
        self.h, self.w = hist, world

    def utxos_at(self, tip, upto=None):
        """{outpoint: (value term, height offset from the stable height, kind)} after the chain anchor..tip"""
        u = {}
        for (t, v, kind, below) in STABLE:
            u[(t, v)] = (self.w.val[(t, v)], -below, kind)
        path = self.h.ts.path(tip)
        if upto is not None:
            path = path[:upto + 1]
        for depth, b in enumerate(path):
            for (tid, ins, kinds) in self.h.txs_of(b):
                for i in ins:
                    if i not in u:
                        raise Unsupported('history is not transaction-valid: %s spends %s' % (tid, i))
                    del u[i]
                for oi, kind in enumerate(kinds):
                    if kind != 'OP_RETURN' or True:
                        u[(tid, oi)] = (self.w.val[(tid, oi)], depth, kind)
        return u

    def address_view(self, tip, addr, upto=None):
        """[(outpoint, value, height offset)] sorted by height descending, then outpoint (txid, vout little-endian bytes)"""
        u = self.utxos_at(tip, upto)
        rows = [(op, v, h) for op, (v, h, kind) in u.items() if kind == addr]
        rows.sort(key=lambda x: (-x[2], x[0][0], x[0][1].to_bytes(4, 'little')))     # outpoint order = order of its byte encoding
        return rows

    def refcounts(self, present):
        """{outpoint: number of present blocks creating or spending it}"""
        cnt = {}
        for b in present:
            for (tid, ins, kinds) in self.h.txs_of(b):
                for i in ins:
                    cnt[i] = cnt.get(i, 0) + 1
                for oi in range(len(kinds)):
                    cnt[(tid, oi)] = cnt.get((tid, oi), 0) + 1
        return cnt

    def deltas(self, b):
        """(added, removed) per address for block b, in transaction order"""
        added, removed = {}, {}
        kinds_of = {}
        for (t, v, kind, below) in STABLE:
            kinds_of[(t, v)] = kind
        for blk in range(1, self.h.ts.n + 1):
            for (tid, ins, kinds) in self.h.txs_of(blk):
                for oi, kind in enumerate(kinds):
                    kinds_of[(tid, oi)] = kind
        for (tid, ins, kinds) in self.h.txs_of(b):
            for i in ins:
                k = kinds_of[i]
                if k in ADDRS:
                    removed.setdefault(k, []).append(i)
            for oi, kind in enumerate(kinds):
                if kind in ADDRS:
                    added.setdefault(kind, []).append((tid, oi))
        return added, removed
