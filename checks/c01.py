#!/usr/bin/env python3
"""C01 - UTXO answers are exactly the ledger state at the tip they name.

Kernels (MIR of ic-btc-canister + ic-btc-types, regenerated from /repo):
  k1  address isolation of the stable index at byte level: AddressUtxo::to_bytes, AddressUtxoRange::new, <u32 as Storable>::
      to_bytes, OutPoint::to_bytes, Blob ordering; address texts a, a' of every length pair up to the bound with symbolic
      bytes, symbolic height / outpoint / optional offset:  an index key of a' that falls into the scan range of a is
      reported by UtxoSet::get_address_outpoints only if a' = a, and for a' = a exactly the keys >= offset are in range
  k2  overlay algebra: AddressUtxoSet::{new, apply_block, into_iter}, MultiIter::next, UtxoSet::{get_address_outpoints, get_utxo},
      OutPointsCache lookups on a chain of unstable blocks over a stable set (see checks/ledger.py): the produced sequence is
      (stable + added) - removed, each once, value/height from the right source, sorted by height descending then outpoint,
      restricted to >= offset
  k3  per-fork caching of outputs: insert_outpoints / OutPointsCache::get_tx_out when one transaction id occurs in two blocks
      of different forks at different heights
"""
import os, sys, time, json, itertools
import z3
sys.path.insert(0, os.path.dirname(os.path.dirname(os.path.abspath(__file__))))
from checks import common as C
from checks.treelib import *   # noqa: F401,F403
from mirsym.interp import Native, b_and
from mirsym.models_std import MODELS, as_slice
from mirsym import bech32

PROP = 'C01'
STUBS = ['print', 'perf_counter']
PROG = None


# ------------------------------------------------------------------------------------------- k1: byte-level index keys
class SymStr(Native):
    """a String whose bytes are symbolic (address text)"""
    ty = 'String'

    def __init__(self, cells):
        self.cells = cells

    def clone_value(self, it):
        return SymStr([Cell(c.v) for c in self.cells])

    def eq_value(self, it, o):
        if len(self.cells) != len(o.cells):
            return False
        return b_and(*[a.v.t == b.v.t for a, b in zip(self.cells, o.cells)])


def install_bytes_models(it):
    ov = it.overrides
    base_as_bytes = MODELS['impl#str::as_bytes']

    def as_bytes(it_, k, r, a):
        v = deref(a[0])
        if isinstance(v, SymStr):
            return SliceRef(VecV(v.cells), 0, len(v.cells))
        return base_as_bytes(it_, k, r, a)
    ov['String::as_bytes'] = ov['impl#str::as_bytes'] = as_bytes
    ov['<String as Deref>::deref'] = lambda it_, k, r, a: deref(a[0])

    def cow_deref(it_, k, r, a):
        c = deref(a[0])
        if isinstance(c, Agg) and c.ty == 'Cow':
            return as_slice(c.f(0))
        return as_slice(c)
    ov['<Cow as Deref>::deref'] = ov['<Cow as AsRef>::as_ref'] = ov['<Cow as Borrow>::borrow'] = cow_deref
    ov['Cow::to_vec'] = lambda it_, k, r, a: VecV([Cell(c.v) for c in cow_deref(it_, k, r, a).cells()])
    ov['<Blob as TryFrom>::try_from'] = lambda it_, k, r, a: ok(Agg('Blob', [Cell(VecV([Cell(c.v) for c in as_slice(a[0]).cells()]))]))
    ov['Blob::as_slice'] = lambda it_, k, r, a: as_slice(deref(a[0]).f(0))
    ov['String::from_utf8'] = lambda it_, k, r, a: ok(SymStr([Cell(c.v) for c in a[0].cells]))     # printable ASCII: always valid UTF-8


def lex_le(xs, ys):
    """byte-slice order (lexicographic, shorter prefix first) as a formula: xs <= ys"""
    res = z3.BoolVal(len(xs) <= len(ys))
    for a, b in reversed(list(zip(xs, ys))):
        res = z3.Or(zterm(a) < zterm(b), z3.And(zterm(a) == zterm(b), res))
    return res


def mk_outpoint(it, prog, tag, nbytes=32):
    txid_bytes = VecV([Cell(it.fresh('%s_tx%d' % (tag, i), 'u8', 0, 255)) for i in range(nbytes)])
    d = prog.src.find_adt(['ic_btc_types', 'Txid'])
    txid = Agg('Txid', [Cell(txid_bytes)])
    vout = it.fresh('%s_vout' % tag, 'u32')
    return Agg('OutPoint', [Cell(txid), Cell(vout)]), [c.v.t for c in txid_bytes.cells], vout.t


def worker_k1(job):
    la, lb, has_offset = job
    prog = PROG
    rep = H.Report(PROP, 'quick')
    cands = Cands()
    st = Stats()
    seen = set()

    def scenario(it):
        btc.install(it, STUBS)
        install_bytes_models(it)
        a = SymStr([Cell(it.fresh('a%d' % i, 'u8', 33, 126)) for i in range(la)])
        b = SymStr([Cell(it.fresh('b%d' % i, 'u8', 33, 126)) for i in range(lb)])
        addr_a = Agg('Address', [Cell(a)])
        addr_b = Agg('Address', [Cell(b)])
        h = it.fresh('h', 'u32')
        op, op_tx, op_vout = mk_outpoint(it, prog, 'o')
        key = H.mk_struct(prog, 'types::AddressUtxo', address=addr_b, height=h, outpoint=op)
        kb = it.call('<AddressUtxo as Storable>::to_bytes', [Ref(Cell(key))])
        kbytes = [c.v.t for c in as_slice(kb.f(0)).cells()]
        if has_offset:
            oo, oo_tx, oo_vout = mk_outpoint(it, prog, 'off')
            oh = it.fresh('off_h', 'u32')
            offset = some(H.mk_struct(prog, 'types::Utxo', height=oh, outpoint=oo, value=SInt(0, 'u64')))
        else:
            offset = none()
        rng_ = it.call('AddressUtxoRange::new', [Ref(Cell(addr_a)), Ref(Cell(offset))])
        d = prog.src.find_adt(['types', 'AddressUtxoRange'])
        sb = [c.v.t for c in rng_.fields[d.fields.index('start_bound')].v.f(0).cells]
        eb = [c.v.t for c in rng_.fields[d.fields.index('end_bound')].v.f(0).cells]
        in_range = z3.And(lex_le(sb, kbytes), lex_le(kbytes, eb))
        same = z3.And(*[x.v.t == y.v.t for x, y in zip(a.cells, b.cells)]) if la == lb else z3.BoolVal(False)
        # what the scan reports for this key: get_address_outpoints maps every key in range to its outpoint; a repaired
        # implementation may compare the decoded address - so the reported set is decided by running the real filter
        reported = z3.And(in_range, scan_keeps(it, prog, addr_a, key, kb))
        m = check_unsat(it, rep, z3.And(reported, z3.Not(same)))
        seen.add((la, lb))
        if m is not None:
            cands.add(kernel='k1', role='key-of-another-address-in-scan-range', model=m, a=[c.v.t for c in a.cells], b=[c.v.t for c in b.cells],
                      height=h.t, len_a=la, len_b=lb, has_offset=has_offset)
            return
        if la == lb:
            # same address: in range <=> (height desc, outpoint asc) >= offset
            if has_offset:
                ge = z3.Or(h.t < oh.t, z3.And(h.t == oh.t, lex_le(oo_tx + vout_le(oo_vout), op_tx + vout_le(op_vout))))
            else:
                ge = z3.BoolVal(True)
            m = check_unsat(it, rep, z3.And(same, reported != ge))
            if m is not None:
                cands.add(kernel='k1', role='range-of-own-keys-differs-from-offset-order', model=m, a=[c.v.t for c in a.cells], height=h.t,
                          has_offset=has_offset)
        # witness: some key of the same address is in range
        if la == lb and check_sat(it, rep, z3.And(same, reported)):
            seen.add('own-key-in-range')

    explore(prog, scenario, stats=st, on_panic=lambda it, e: cands.add(kernel='k1', role='trap', model=it.model_ if it.feasible() else None, msg=str(e)[:300]))
    rep.add_stats(st, 'k1:address-index-keys')
    rep.cov['shapes'] += 1
    if la == lb:
        if 'own-key-in-range' in seen:
            rep.cov['witnesses'] += 1
        else:
            cands.add(kernel='k1', role='own-keys-never-in-range', model=None, vacuity=True)
    if la <= 2:
        rep.sample(dict(kernel='k1', len_a=la, len_b=lb, offset=bool(has_offset), paths=st.paths))
    return (rep.cov, cands.items, rep.inconclusive)


def vout_le(v):
    return [(v / (1 << (8 * i))) % 256 for i in range(4)]


def scan_keeps(it, prog, addr_a, key, key_bytes):
    """the per-entry part of UtxoSet::get_address_outpoints for an index entry `key`: the closure pipeline applied to the
    entry (decode, and whatever filtering the code performs).  Returns a formula: the entry's outpoint is emitted."""
    body = prog.inherent.get(('UtxoSet', 'get_address_outpoints'))
    if not body:
        raise Unsupported('UtxoSet::get_address_outpoints not found')
    # run the real function on a UtxoSet whose index contains exactly this entry
    from mirsym.models_coll import MapV
    idx = MapV('StableBTreeMap')
    idx.entries.append((key_bytes if False else Agg('Blob', [Cell(VecV([Cell(c.v) for c in as_slice(key_bytes.f(0)).cells()]))]), Cell(UNIT)))
    utxos = H.mk_struct(prog, 'UtxoSet', utxos=Opaque('utxos'), network=btc.network(prog, 2), address_utxos=idx,
                        balances=Opaque('bal'), next_height=SInt(0, 'u32'), should_time_slice=Opaque('sts'), ingesting_block=none())
    # the range lookup itself is replaced by "the entry is offered" (membership is the caller's in_range formula)
    from mirsym.models_std import ListIter, drain
    entry = Agg('LazyEntry', [Cell(idx.entries[0][0]), Cell(UNIT)])
    it.overrides['StableBTreeMap::range'] = lambda it_, k, r, a: ListIter([entry])
    it.overrides['LazyEntry::key'] = lambda it_, k, r, a: Ref(deref(a[0]).fields[0])
    it.overrides['LazyEntry::value'] = lambda it_, k, r, a: UNIT
    res = it.call('UtxoSet::get_address_outpoints', [Ref(Cell(utxos)), Ref(Cell(addr_a)), Ref(Cell(none()))])
    out = drain(it, res)
    return z3.BoolVal(len(out) == 1)


# ------------------------------------------------------------------------------------------- k2/k3: overlay algebra
def worker_k2(job):
    from checks import histlib as HL
    from mirsym import ledger as L
    from mirsym.models_std import drain
    parents, content = job
    prog = PROG
    rep = H.Report(PROP, 'quick')
    cands = Cands()
    st = Stats()
    hist = HL.History(parents, content)
    ts = hist.ts
    seen = set()

    def scenario(it):
        w = HL.World(it, prog, hist)
        w.push_all()
        orc = HL.Oracle(hist, w)
        du = prog.src.find_adt(['types', 'Utxo'])
        leaf = ts.leaves[it.choose(len(ts.leaves), 'tip')]
        addr = HL.ADDRS[it.choose(len(HL.ADDRS), 'address')]
        path = ts.path(leaf)

        def view(offset):
            ac = Cell(it.call("AddressUtxoSet::<'_>::new", [L.address(addr), w.usref, w.ubref]))
            for b in path:
                it.call("AddressUtxoSet::<'_>::apply_block", [Ref(ac), Ref(Cell(btc.bh(b)))])
            return drain(it, it.call("AddressUtxoSet::<'_>::into_iter", [ac.v, offset]))
        seq = view(none())
        got = [(L.op_key(u.fields[du.fields.index('outpoint')].v), u.fields[du.fields.index('value')].v.t, u.fields[du.fields.index('height')].v.t) for u in seq]
        exp = orc.address_view(leaf, addr)
        info = dict(history=hist.descriptor(), tip=leaf, address=addr)
        mdl = lambda: it.model_ if it.feasible() else None
        seen.add(len(exp))
        if sorted(g[0] for g in got) != sorted(e[0] for e in exp):
            cands.add(kernel='k2', role='utxo-set-differs-from-ledger', model=mdl(), got=[g[0] for g in got], expected=[e[0] for e in exp], **info)
            return
        if len(set(g[0] for g in got)) != len(got):
            cands.add(kernel='k2', role='utxo-reported-twice', model=mdl(), got=[g[0] for g in got], **info)
            return
        gv = {g[0]: g for g in got}
        for e in exp:
            g = gv[e[0]]
            m = check_unsat(it, rep, zterm(g[1]) != zterm(e[1]))
            if m is not None:
                cands.add(kernel='k2', role='value-differs-from-ledger', model=m, outpoint=list(e[0]), **info)
                return
            m = check_unsat(it, rep, zterm(g[2]) != w.sh.t + e[2])
            if m is not None:
                cands.add(kernel='k2', role='height-is-not-that-of-the-containing-block-on-this-chain', model=m, outpoint=list(e[0]),
                          expected_height_offset=e[2], **info)
                return
        # order: height descending, then outpoint (heights are stable_height + constant, so the order is concrete)
        if [g[0] for g in got] != [e[0] for e in exp]:
            cands.add(kernel='k2', role='order-is-not-height-descending-then-outpoint', model=mdl(), got=[g[0] for g in got], expected=[e[0] for e in exp], **info)
            return
        # continuation from every element (pagination offset): exactly the suffix
        for k in range(1, len(seq)):
            off = some(H.mk_struct(prog, 'types::Utxo', height=SInt(got[k][2], 'u32'), outpoint=L.outpoint(*got[k][0]), value=SInt(0, 'u64')))
            sub = view(off)
            subk = [L.op_key(u.fields[du.fields.index('outpoint')].v) for u in sub]
            if subk != [g[0] for g in got[k:]]:
                cands.add(kernel='k2', role='continuation-from-offset-is-not-the-suffix', model=mdl(), offset_index=k, got=subk, expected=[g[0] for g in got[k:]], **info)
                return

    explore(prog, scenario, stats=st, on_panic=lambda it, e: cands.add(
        kernel='k2', role='trap', model=it.model_ if it.feasible() else None, history=hist.descriptor(), msg=str(e)[:300]))
    rep.add_stats(st, 'k2:overlay')
    rep.cov['shapes'] += 1
    if any(n >= 2 for n in seen):
        rep.cov['witnesses'] += 1
    if sum(parents) % 2 == 0:
        rep.sample(dict(kernel='k2', parents=parents, transactions_per_block=content, paths=st.paths, view_sizes=sorted(seen)))
    return (rep.cov, cands.items, rep.inconclusive)


def native_views(desc):
    from checks.c20 import native_history
    return native_history(desc, 100)


def judge_native_views(desc, res, want_heights=True):
    """get_utxos for both addresses after every arrival vs the python ledger with the native amounts (1000*txid + vout)"""
    from checks import histlib as HL
    parents, content = desc
    hist = HL.History(parents, {int(k): v for k, v in content.items()})
    ts = hist.ts

    class W:
        val = {}
    for b in range(1, ts.n + 1):
        for (tid, ins, kinds) in hist.txs_of(b):
            for oi in range(len(kinds)):
                W.val[(tid, oi)] = 1000 * tid + oi
    for (t, v, kind, below) in HL.STABLE:
        W.val[(t, v)] = 1000 * t + v
    orc = HL.Oracle(hist, W)
    problems = []
    if res.get('trap'):
        return ['trap: %s' % res['trap']]
    for stp in res.get('steps', []):
        for a in ('A', 'B'):
            ans = stp[a]
            if 'err' in ans or not isinstance(ans.get('tip'), int):
                problems.append('get_utxos(%s) after block %s: %s' % (a, stp['after'], ans))
                continue
            tip = ans['tip']
            sh = stp['stable_height']
            exp = orc.address_view(tip, a)
            got = [((u[0], u[1]), u[2], u[3]) for u in ans['utxos']]
            expc = [(e[0], e[1], sh + e[2]) for e in exp]
            if not want_heights:
                got = [(g[0], g[1]) for g in got]
                expc = [(e[0], e[1]) for e in expc]
            # within one height the real order is that of the transaction hashes, which the labels do not reflect:
            # compare as sets and demand non-increasing heights
            hs = [u[3] for u in ans['utxos']]
            if sorted(got) != sorted(expc) or any(hs[i] < hs[i + 1] for i in range(len(hs) - 1)):
                problems.append('get_utxos(%s) at tip %s after block %s: %s, ledger %s' % (a, tip, stp['after'], got, expc))
            bal = stp['balance_' + a]
            if bal != sum(e[1] for e in exp):
                problems.append('get_balance(%s) after block %s: %s, ledger %s' % (a, stp['after'], bal, sum(e[1] for e in exp)))
    return problems


# ------------------------------------------------------------------------------------------- native side
def native_prefix_pair():
    victim = bech32.p2wpkh('bcrt', bytes(range(20)))
    crafted, _ = bech32.extending_p2wsh('bcrt', victim)
    ops = [dict(op='init', network='regtest', threshold=1, anchor=dict(id=1, difficulty=1)),
           dict(op='push', id=2, parent=1, difficulty=1, coinbase=[[8, 5000], [7, 1000]]),
           dict(op='push', id=3, parent=2, difficulty=1), dict(op='push', id=4, parent=3, difficulty=1),
           dict(op='push', id=5, parent=4, difficulty=1), dict(op='ingest'), dict(op='ingest'), dict(op='ingest'), dict(op='tree'),
           dict(op='utxos', addr=7), dict(op='balance', addr=7), dict(op='utxos', addr=8), dict(op='balance', addr=8)]
    res = C.run_native([dict(addresses={'7': victim, '8': crafted}, ops=ops)], tag='c01px')[0]
    return victim, crafted, res, ops


def confirm(cand, known):
    doc = dict(property=PROP, role=cand['role'], summary={k: v for k, v in cand.items() if k not in ('shape',)}, problems=[])
    if cand['role'] == 'key-of-another-address-in-scan-range':
        victim, crafted, res, ops = native_prefix_pair()
        tree, u7, b7, u8, b8 = res[-5:]
        doc['native'] = dict(victim=victim, crafted=crafted, stable_height=tree.get('stable_height'), utxos_victim=u7, balance_victim=b7)
        vals = sorted(u['value'] for u in u7.get('utxos', []))
        if vals != [1000]:
            doc['problems'].append('get_utxos(%s) returns values %s although only 1000 pays this address; 5000 pays %s whose text extends it' % (victim, vals, crafted))
            doc['scenario'] = dict(addresses={'7': victim, '8': crafted}, ops=ops)
            for k in known:
                if k['id'] == 'C01-prefix-address-leak' and k.get('status') == 'known':
                    return 'known:' + k['id'], doc
            return 'violation', doc
        return 'not-reproduced', doc
    if cand['kernel'] == 'k2' and cand.get('history'):
        res = native_views(cand['history'])
        probs = judge_native_views(cand['history'], res)
        if probs:
            doc['problems'] = probs[:3]
            only_heights = not judge_native_views(cand['history'], res, want_heights=False)
            for k in known:
                if k['id'] == 'C01-same-tx-on-two-forks-first-height' and k.get('status') == 'known' and only_heights \
                        and cand['role'] == 'height-is-not-that-of-the-containing-block-on-this-chain' and shared_tx_on_forks(cand['history']):
                    return 'known:' + k['id'], doc
            return 'violation', doc
        return 'not-reproduced', doc
    doc['problems'].append(cand['role'])
    return 'violation', doc


def shared_tx_on_forks(desc):
    """the listed defect needs one transaction id included in two blocks of the tree"""
    parents, content = desc
    seen = {}
    for b, txs in content.items():
        for t in txs:
            seen.setdefault(t, []).append(b)
    return any(len(v) > 1 for v in seen.values())


def translator_validation(rep):
    """the crafted prefix pair and an unrelated pair through the real canister"""
    victim, crafted, res, ops = native_prefix_pair()
    u7, b7, u8, b8 = res[-4:]
    if sorted(u['value'] for u in u8.get('utxos', [])) == [5000] and b8.get('balance') == 5000 and b7.get('balance') == 1000:
        rep.cov['traces_validated_against_impl'] += 1
    else:
        rep.inconclusive = 'native prefix-pair scenario did not build as expected: %s' % (res[-5:],)
    return sorted(u['value'] for u in u7.get('utxos', []))


def main():
    global PROG
    tier = C.tier()
    rep = H.Report(PROP, tier)
    prog = PROG = H.load_program(['canister', 'types'])
    btc.load_dep_decls(prog)
    rep.cov['mir'] = dict(prog.info)
    LA = 2 if tier == 'quick' else 3
    rep.cov['bounds'] = dict(address_text='lengths 1..%d x 1..%d, bytes symbolic printable ASCII' % (LA, LA + 1), height='symbolic u32', outpoint='32 symbolic txid bytes + symbolic vout',
                             offset='absent or symbolic', outside='texts longer than the bound (the key layout does not depend on the length beyond prefix relations); the bech32/base58 codec itself')
    rep.cov['functions_encoded'] = ['<AddressUtxo as Storable>::to_bytes', 'AddressUtxoRange::new', '<u32 as types::Storable>::to_bytes', '<OutPoint as Storable>::to_bytes (ic-btc-types)',
                                    '<Address as Storable>::to_bytes', 'UtxoSet::get_address_outpoints (+closures)', 'AddressUtxo::from_bytes', 'MultiIter::{new,next}']
    rep.cov['stubs'] = btc.stub_docs(STUBS) + ['String = vector of symbolic bytes', 'Cow / Blob = byte vectors; Blob order = byte-slice order (ic-stable-structures)',
                                              'StableBTreeMap::range -> offers the single entry under test (range membership is decided by the solver on the real bounds)']
    rep.assumptions = ['StableBTreeMap orders Blob keys as byte slices (lexicographic, shorter prefix first)']
    cands = Cands()
    jobs = [(la, lb, off) for la in range(1, LA + 1) for lb in range(1, LA + 2) for off in (0, 1)]
    for part in parallel(jobs, worker_k1):
        merge_partial(rep, cands, part)
    from checks import histlib as HL
    r = C.rng()
    N = 3 if tier == 'quick' else 4
    hjobs = HL.history_list(tier, r, 3 if tier == 'quick' else 4, 3 if tier == 'quick' else 8)
    for part in parallel(hjobs, worker_k2):
        merge_partial(rep, cands, part)
    rep.cov['bounds']['histories'] = '%d (%d handcrafted incl. one transaction on two forks at different heights + seeded samples per tree shape up to %d blocks + %s of the 958 transaction-valid histories on trees of up to 3 blocks); every leaf x both addresses x every continuation offset' % (len(hjobs), len(HL.HANDCRAFTED), N, 'all' if tier != 'quick' else 'an evenly spread subset')
    for p, c in hjobs[:8]:
        res = native_views((p, c))
        probs = judge_native_views((p, c), res, want_heights=not shared_tx_on_forks((p, c)))
        if not probs and res.get('steps'):
            rep.cov['traces_validated_against_impl'] += len(res['steps'])
        else:
            rep.inconclusive = 'native views for history %s: %s' % ((p, c), str(probs)[:300])
    translator_validation(rep)
    settle(rep, PROP, cands, confirm, H.load_known(PROP), cap=3, describe=lambda d: str(d.get('problems'))[:400])
    return rep.finish()


if __name__ == '__main__':
    C.run_check(main)
