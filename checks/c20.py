#!/usr/bin/env python3
"""C20 - bookkeeping for unstable blocks is exact: nothing leaks, nothing dangles.

Kernel (MIR regenerated from /repo; ledger model): UnstableBlocks::new, unstable_blocks::{push, pop, peek}, insert_outpoints,
OutPointsCache::{remove, get_tx_out, ...}, BlockTree::{extend_cached, remove_child, blocks, into_root_and_remove_from_cache,
remove_from_cache, tip_depths}, state::ingest_stable_blocks_into_utxoset with the real UtxoSet::ingest_block, on histories of
transaction-carrying blocks (checks/histlib.py): fork trees with transactions shared between forks, outputs spent across forks,
same-block spends.  Blocks arrive one by one; after every arrival the anchor may advance (threshold 1 or 2, difficulty 1).
After every step:  block-cache keys = tree blocks;  per-block address delta maps exist exactly for tree blocks and equal the
blocks' deltas;  the reference count of every cached output = number of tree blocks creating or spending it, none missing,
none zero;  cached tip depths = tip depths;  no step traps (nothing a later step needs is missing).
Announced-header bookkeeping is decided in C14 kernel n / C10 kernel h.
"""
import os, sys, time, json
import z3
sys.path.insert(0, os.path.dirname(os.path.dirname(os.path.abspath(__file__))))
from checks import common as C
from checks.treelib import *   # noqa: F401,F403
from checks import histlib as HL
from mirsym import ledger as L
from mirsym.models_coll import MapV

PROP = 'C20'
PROG = None


def tree_blocks(prog, ub):
    from checks.c03 import tree_ids
    return tree_ids(prog, H.get_field(prog, ub, 'GenericUnstableBlocks', 'tree').v)


def compare(w, orc, present, cands, hist, when, it, rep):
    bk = w.bookkeeping()
    ts = hist.ts
    mdl = lambda: it.model_ if it.feasible() else None
    info = dict(history=hist.descriptor(), step=when, present=sorted(present), threshold=getattr(hist, 'thr', 1))
    if bk['cache_ids'] != sorted(present):
        cands.add(kernel='b', role='block-cache-differs-from-tree', model=mdl(), got=bk['cache_ids'], **info)
        return False
    for nm in ('added', 'removed'):
        if sorted(bk[nm]) != sorted(present):
            cands.add(kernel='b', role='%s-delta-map-keys-differ-from-tree' % nm, model=mdl(), got=sorted(bk[nm]), **info)
            return False
    for b in present:
        a, r = orc.deltas(b)
        if bk['added'][b] != a or bk['removed'][b] != r:
            cands.add(kernel='b', role='address-deltas-of-a-block-differ', model=mdl(), block=b, got=dict(added=bk['added'][b], removed=bk['removed'][b]),
                      expected=dict(added=a, removed=r), **info)
            return False
    exp = orc.refcounts(present)
    got = {k: v['count'] for k, v in bk['tx_outs'].items()}
    if set(got) != set(exp):
        cands.add(kernel='b', role='cached-outputs-missing-or-leaked', model=mdl(), missing=sorted(set(exp) - set(got)), leaked=sorted(set(got) - set(exp)), **info)
        return False
    for k in exp:
        c = got[k]
        if not isinstance(c, int):
            m = check_unsat(it, rep, zterm(c) != exp[k])
            if m is not None:
                cands.add(kernel='b', role='reference-count-wrong', model=m, outpoint=list(k), expected=exp[k], **info)
                return False
        elif c != exp[k]:
            cands.add(kernel='b', role='reference-count-wrong', model=mdl(), outpoint=list(k), got=c, expected=exp[k], **info)
            return False
    # cached tip depths
    root = min(present, key=lambda b: len(ts.path(b)))
    tips = sorted(len(ts.path(l)) - len(ts.path(root)) + 1 for l in present if not any(c in present for c in ts.ch[l]))
    if bk['tips'] != tips:
        cands.add(kernel='b', role='tip-depths-cache', model=mdl(), got=bk['tips'], expected=tips, **info)
        return False
    return True


def worker(job):
    parents, content, thr = job
    prog = PROG
    rep = H.Report(PROP, 'quick')
    cands = Cands()
    st = Stats()
    hist = HL.History(parents, content)
    hist.thr = thr
    ts = hist.ts
    steps_seen = set()

    def scenario(it):
        w = HL.World(it, prog, hist, thr=SInt(thr, 'u32'))
        orc = HL.Oracle(hist, w)
        d = prog.src.find_adt(['GenericState'])
        hdrs = []
        it.overrides['BlockHeaderStore::insert_block'] = lambda it_, k, r, a: (hdrs.append((a[2].t, deref(a[1]).fields[0].v.t)), UNIT)[1]
        it.overrides['NextBlockHeaders::remove_until_height'] = lambda it_, k, r, a: UNIT
        it.overrides['NextBlockHeaders::remove'] = lambda it_, k, r, a: UNIT
        dm = prog.src.find_adt(['metrics', 'Metrics'])
        metrics = Agg('Metrics', [Cell(Opaque(f)) for f in dm.fields])
        svals = dict(utxos=w.us, unstable_blocks=w.ub, metrics=metrics)
        state = Agg('GenericState', [Cell(svals.get(f, Opaque(f))) for f in d.fields])
        sref = Ref(Cell(state))
        present = [1]
        if not compare(w, orc, present, cands, hist, 'after-new', it, rep):
            return
        for b in range(2, ts.n + 1):
            if ts.par[b] not in present:
                continue          # its fork was discarded: the block no longer connects (the source would not offer it)
            w.push(b)
            present.append(b)
            if not compare(w, orc, present, cands, hist, 'after-push-%d' % b, it, rep):
                return
            # ingestion opportunity (what the next heartbeat does)
            r = it.call('state::ingest_stable_blocks_into_utxoset', [sref])
            now = tree_blocks(prog, w.ub)
            if sorted(now) != sorted(present):
                # the anchor advanced: the kept blocks must be a subtree rooted at a child of the old anchor chain
                steps_seen.add('pop')
                present = [x for x in present if x in now]
                w.cache.ids = set(w.cache.ids)
                if not compare(w, orc, present, cands, hist, 'after-ingest-%d' % b, it, rep):
                    return
        steps_seen.add('end')
        return len(present)

    explore(prog, scenario, stats=st, on_panic=lambda it, e: cands.add(
        kernel='b', role='trap', model=it.model_ if it.feasible() else None, history=hist.descriptor(), threshold=thr, msg=str(e)[:300]))
    rep.add_stats(st, 'b:bookkeeping')
    rep.cov['shapes'] += 1
    if 'pop' in steps_seen:
        rep.cov['witnesses'] += 1
    if sum(parents) % 2 == 0 or 'pop' in steps_seen:
        rep.sample(dict(parents=parents, transactions_per_block=content, threshold=thr, anchor_advanced='pop' in steps_seen))
    return (rep.cov, cands.items, rep.inconclusive)


def native_history(desc, thr):
    parents, content = desc
    content = {int(k): v for k, v in content.items()}
    return C.run_native([dict(ops=[dict(op='history', parents=parents, content=content, threshold=thr,
                                         stable=[list(x) for x in HL.STABLE], pool={str(k): [list(map(list, v[0])), v[1]] for k, v in HL.POOL.items()})])], tag='c20')[0][-1]


def judge_native(desc, thr, res):
    """compare the bookkeeping the real canister reports (hook) after every step with the oracle's"""
    parents, content = desc
    hist = HL.History(parents, {int(k): v for k, v in content.items()})
    ts = hist.ts

    class W:       # values are not needed for bookkeeping
        val = {}
    orc = HL.Oracle(hist, W)
    problems = []
    if res.get('trap'):
        return ['trap: %s' % res['trap']]
    for stp in res.get('steps', []):
        present = sorted(x for x in stp['tree'] if isinstance(x, int) and x <= ts.n)
        prefix = [x for x in stp['tree'] if not (isinstance(x, int) and x <= ts.n)]
        if prefix:
            continue        # stable prefix blocks still unstable (threshold 2 before the anchor is reached)
        book = stp['book']
        S = lambda xs: sorted(str(x) for x in xs)
        if S(book['cached']) != S(present) or S(book['added']) != S(present) or S(book['removed']) != S(present):
            problems.append('after block %s: tree %s, cached bodies %s, added-delta keys %s, removed-delta keys %s' % (
                stp['after'], present, book['cached'], book['added'], book['removed']))
            continue
        exp = orc.refcounts(present)
        got = {(a, b): c for a, b, c in book['tx_outs'] if isinstance(a, int)}
        if got != exp:
            problems.append('after block %s: reference counts %s, expected %s' % (stp['after'], sorted(got.items()), sorted(exp.items())))
        root = min(present, key=lambda b: len(ts.path(b)))
        tips = sorted(len(ts.path(l)) - len(ts.path(root)) + 1 for l in present if not any(c in present for c in ts.ch[l]))
        if book['tips'] != tips:
            problems.append('after block %s: tip depths %s, expected %s' % (stp['after'], book['tips'], tips))
    return problems


def confirm(cand, known):
    doc = dict(property=PROP, role=cand['role'], summary={k: v for k, v in cand.items() if k not in ('shape',)}, problems=[])
    res = native_history(cand['history'], cand.get('threshold', 1))
    probs = judge_native(cand['history'], cand.get('threshold', 1), res)
    doc['native_steps'] = len(res.get('steps', []))
    if probs:
        doc['problems'] = probs[:3]
        return 'violation', doc
    return 'not-reproduced', doc


def translator_validation(rep, hists):
    for h, thr in hists:
        res = native_history(h.descriptor(), thr)
        probs = judge_native(h.descriptor(), thr, res) if isinstance(res, dict) else ['no result']
        if not probs and res.get('steps'):
            rep.cov['traces_validated_against_impl'] += len(res['steps'])
        else:
            rep.inconclusive = 'native history %s (threshold %s): %s' % (h.descriptor(), thr, str(probs)[:400])


def main():
    global PROG
    tier = C.tier()
    rep = H.Report(PROP, tier)
    prog = PROG = H.load_program(['canister'])
    btc.load_dep_decls(prog)
    rep.cov['mir'] = dict(prog.info)
    N = 3 if tier == 'quick' else 4
    per_shape = 3 if tier == 'quick' else 8
    r = C.rng()
    jobs = []
    for parents, content in HL.HANDCRAFTED:
        for thr in (1, 2):
            jobs.append((parents, content, thr))
    for parents in shapes_upto(N):
        if not parents:
            continue
        for h in HL.valid_histories(parents, r, per_shape):
            jobs.append((h.parents, h.content, r.choice([1, 1, 2])))
    # every transaction-valid history of the trees with up to 3 blocks (958 of them), all in the thorough tier, an evenly spread
    # subset in the quick tier
    enum = []
    for parents in shapes_upto(3):
        if parents:
            enum += HL.enumerate_histories(parents, None if tier != 'quick' else 16)
    for k, h in enumerate(enum):
        jobs.append((h.parents, h.content, 1 + k % 2))
    seenj = set()
    jobs = [j for j in jobs if not (repr(j) in seenj or seenj.add(repr(j)))]
    rep.cov['bounds'] = dict(tree_blocks=N, histories=len(jobs), transactions='pool of 5 (spends of stable outputs, chained spends, conflicting spends, non-address and OP_RETURN outputs) + one coinbase per block',
                             threshold='1 or 2, difficulty 1', selection='%d handcrafted histories x 2 thresholds + %d sampled assignments per tree shape (VERIF_SEED) + %s of the 958 transaction-valid histories on trees of up to 3 blocks' % (len(HL.HANDCRAFTED), per_shape, 'all' if tier != 'quick' else '48 evenly spread'),
                             outside='histories outside the sample; stable-memory footprint of block bodies; announced headers (C14/C10)')
    rep.cov['functions_encoded'] = ['GenericUnstableBlocks::new', 'unstable_blocks::{push,pop,peek,get_stable_child}', 'insert_outpoints', 'OutPointsCache::{new,remove,get_tx_out}',
                                    'BlockTree::{new_with_cache,extend_cached,extend,find_mut,remove_child,blocks,into_root_and_remove_from_cache,remove_from_cache,tip_depths,set_root_metrics}',
                                    'CachedBlock::{new_cached,block,set_metrics}', 'state::ingest_stable_blocks_into_utxoset', 'UtxoSet::{ingest_block,ingest_block_continue,...}']
    rep.cov['stubs'] = btc.stub_docs(HL.STUBS) + ['ledger model (mirsym/ledger.py)', 'dyn BlocksCache -> map id -> block', 'BlockHeaderStore::insert_block, NextBlockHeaders::{remove,remove_until_height} -> recorders / no-ops',
                                                 'testnet depth bound: real function not reached (threshold rule decides at these sizes)']
    rep.assumptions = ['blocks are transaction-valid on their own chain (domain of the statement)', 'amounts symbolic (zero-valued outputs included)']
    cands = Cands()
    for part in parallel(jobs, worker):
        merge_partial(rep, cands, part)
    translator_validation(rep, [(HL.History(p, c), t) for p, c, t in jobs[:10]])
    settle(rep, PROP, cands, confirm, H.load_known(PROP), cap=4, describe=lambda d: str(d.get('problems'))[:400])
    return rep.finish()


if __name__ == '__main__':
    C.run_check(main)
