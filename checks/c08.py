#!/usr/bin/env python3
"""C08 - time-sliced ingestion is invisible and schedule independent.

Kernel (MIR regenerated from /repo; ledger model of mirsym/ledger.py): UtxoSet::{ingest_block, ingest_block_continue,
ingest_tx_with_slicing, remove_inputs, insert_outputs, insert_utxo, get_balance, get_utxo, get_address_outpoints},
UtxosDelta::*, insert_outpoints + OutPointsCache lookups, AddressUtxoSet::{new, apply_block, into_iter}, MultiIter::next,
state::blockchain_info.   Every call of `should_time_slice` after the first of a round is a nondeterministic choice, so
every set of pause positions inside the block is explored; amounts and stable heights are symbolic.
After every round the API-level readers - the address's UTXO sequence as get_utxos builds it (overlay of the anchor block
applied), UtxoSet::get_balance, UtxoSet::get_utxo for every outpoint the block touches, get_blockchain_info's utxos_length -
must equal the answers given before the ingestion began; the resume indices never skip or repeat; after Done the maps are
identical to those of an unsliced run; ingestion ends within (#inputs + #outputs + 1) rounds.
Kernel hb: the heartbeat state machine returns before fetching / processing when ingestion reports Paused or Done(true).
"""
import os, sys, time, json, itertools
import z3
sys.path.insert(0, os.path.dirname(os.path.dirname(os.path.abspath(__file__))))
from checks import common as C
from checks.treelib import *   # noqa: F401,F403
from mirsym import ledger as L
from mirsym.models_std import drain, poll_once, LeafFuture
from mirsym.models_coll import MapV

PROP = 'C08'
STUBS = ['print', 'perf_counter', 'blockhash_to_vec', 'blockhash_from']
PROG = None
ADDRS = ['A', 'B']

# stable set: (txid, vout, address kind)
STABLE = [(1, 0, 'A'), (1, 1, 'B'), (2, 0, 'A'), (3, 0, '')]

# block specs: list of transactions; a transaction = (inputs, outputs); input = ('S', index into STABLE) | ('T', tx index in block, vout)
SPECS = {
    'coinbase-only': [([], ['A', 'B'])],
    'spend-stable': [([], ['A']), ([('S', 0)], ['B', 'A'])],
    'spend-two-stable': [([], ['B']), ([('S', 0), ('S', 1)], ['A'])],
    'same-block-create-and-spend': [([], ['A']), ([('S', 2)], ['A', 'B']), ([('T', 1, 0)], ['B'])],
    'spend-coinbase-of-same-block': [([], ['A', 'A']), ([('T', 0, 1), ('S', 0)], ['A'])],
    'non-address-scripts': [([], ['', 'OP_RETURN', 'A']), ([('S', 3), ('S', 1)], ['', 'B'])],
    'zero-value-and-all-to-one': [([], ['A']), ([('S', 0), ('S', 2)], ['A', 'A'])],
    'chain-in-block': [([], ['B']), ([('S', 1)], ['A']), ([('T', 1, 0)], ['A']), ([('T', 2, 0)], ['B', ''])],
}
QUICK = ['coinbase-only', 'spend-stable', 'same-block-create-and-spend', 'non-address-scripts']


def build(it, prog, spec, slicer):
    btc.install(it, STUBS)
    led = L.Ledger(it, prog)
    nh = it.fresh('next_height', 'u32', 10, 1 << 30)
    us = led.utxo_set(nh, slicer)
    vals = {}
    for k, (t, v, kind) in enumerate(STABLE):
        val = it.fresh('sv%d' % k, 'u64', 0, 1 << 50)
        h = SInt([5, 7, 3, 8][k], 'u32')          # distinct concrete heights: orderings of the stable set are not the subject here
        vals[('S', k)] = val
        led.seed_utxo(us, t, v, val, kind, h)
    txs = []
    for ti, (ins, outs) in enumerate(spec):
        tid = 100 + ti
        inputs = []
        for i in ins:
            if i[0] == 'S':
                inputs.append((STABLE[i[1]][0], STABLE[i[1]][1]))
            else:
                inputs.append((100 + i[1], i[2]))
        outputs = []
        for oi, kind in enumerate(outs):
            v = it.fresh('ov%d_%d' % (ti, oi), 'u64', 0, 1 << 50)
            vals[('T', ti, oi)] = v
            outputs.append((v, kind))
        txs.append(led.tx(tid, inputs, outputs))
    block = led.block(50, 49, txs)
    return led, us, block, nh, vals


def touched_outpoints(spec):
    """outpoints whose UtxoSet::get_utxo answer is reachable from the API while a block is paused: the ones that pay an
    address (get_utxos looks them up after the address scan).  Non-address outputs are looked up only by insert_outpoints,
    i.e. when a new block is processed - which the heartbeat does not do while an ingestion is in progress."""
    ops = [(t, v) for (t, v, k) in STABLE if k in ADDRS]
    for ti, (ins, outs) in enumerate(spec):
        for oi, k in enumerate(outs):
            if k in ADDRS:
                ops.append((100 + ti, oi))
    return ops


def readers(it, prog, us, cache_ub, block_hash, spec, info_state):
    """API-level answers: per address the UTXO sequence and balance; get_utxo of every touched outpoint; utxos_length"""
    out = {}
    usref = Ref(Cell(us)) if not isinstance(us, Ref) else us
    for a in ADDRS:
        aset = it.call('AddressUtxoSet::<\'_>::new', [L.address(a), usref, Ref(Cell(cache_ub))])
        ac = Cell(aset)
        it.call('AddressUtxoSet::<\'_>::apply_block', [Ref(ac), Ref(Cell(block_hash))])
        seq = drain(it, it.call('AddressUtxoSet::<\'_>::into_iter', [ac.v, none()]))
        du = prog.src.find_adt(['types', 'Utxo'])
        out[('utxos', a)] = [(L.op_key(u.fields[du.fields.index('outpoint')].v), u.fields[du.fields.index('value')].v.t,
                             u.fields[du.fields.index('height')].v.t) for u in seq]
        out[('balance', a)] = it.call('UtxoSet::get_balance', [usref, Ref(Cell(L.address(a)))]).t
    for (t, v) in touched_outpoints(spec):
        r = it.call('UtxoSet::get_utxo', [usref, Ref(Cell(L.outpoint(t, v)))])
        out[('utxo', t, v)] = None if r.variant == 0 else (r.fields[0].v.fields[0].v.fields[0].v.t, r.fields[0].v.fields[1].v.t)
    info = it.call('state::blockchain_info', [info_state])
    d = prog.src.find_adt(['BlockchainInfo'])
    out[('utxos_length',)] = info.fields[d.fields.index('utxos_length')].v.t
    return out


def differs(it, rep, a, b):
    """first key whose answers differ (structurally or for some values); None if equal on this path.
    All scalar comparisons of one call are discharged by a single solver query."""
    conds = []
    for k in a:
        x, y = a[k], b[k]
        if isinstance(x, list):
            if len(x) != len(y) or [e[0] for e in x] != [e[0] for e in y]:
                return k, None
            for e, f in zip(x, y):
                conds.append((k, z3.Or(zterm(e[1]) != zterm(f[1]), zterm(e[2]) != zterm(f[2]))))
        elif x is None or y is None:
            if (x is None) != (y is None):
                return k, None
        elif isinstance(x, tuple):
            conds.append((k, z3.Or(zterm(x[0]) != zterm(y[0]), zterm(x[1]) != zterm(y[1]))))
        else:
            conds.append((k, zterm(x) != zterm(y)))
    conds = [(k, z3.simplify(c)) for k, c in conds]
    conds = [(k, c) for k, c in conds if not z3.is_false(c)]
    if not conds:
        return None
    m = check_unsat(it, rep, z3.Or(*[c for _, c in conds]))
    if m is None:
        return None
    for k, c in conds:
        if z3.is_true(m.eval(c, model_completion=True)):
            return k, m
    return conds[0][0], m


def maps_snapshot(prog, us):
    g = lambda f: H.get_field(prog, us, 'UtxoSet', f).v
    um = g('utxos').fields[0].v
    return dict(utxos=[(L.op_key(k), c.v.fields[0].v.fields[0].v.t, c.v.fields[1].v.t) for k, c in um.entries],
                index=[(k.fields[0].v.fields[0].v.s, k.fields[1].v.t, L.op_key(k.fields[2].v)) for k, _ in g('address_utxos').entries],
                balances=[(k.fields[0].v.s, c.v.t) for k, c in g('balances').entries],
                next_height=g('next_height').t, ingesting=g('ingesting_block').variant)


def worker(job):
    name = job
    spec = SPECS[name]
    prog = PROG
    rep = H.Report(PROP, 'quick')
    cands = Cands()
    st = Stats()
    nitems = sum(len(i) + len(o) for i, o in spec)
    seen = set()

    def scenario(it):
        sl = {'calls_in_round': 0, 'pauses': []}

        def slicer(it_):
            sl['calls_in_round'] += 1
            if sl['calls_in_round'] == 1:
                return False            # the instruction counter is reset at the start of a message
            p = it_.choose(2, 'slice') == 1
            return p
        led, us, block, nh, vals = build(it, prog, spec, slicer)
        usref = Ref(Cell(us))
        bh = btc.bh(50)
        # the unstable side: the anchor block's outpoints as `push`/`UnstableBlocks::new` record them (pre-ingestion state)
        cache = it.call('OutPointsCache::new', [])
        ccell = Cell(cache)
        metrics = it.call('insert_outpoints', [Ref(ccell), usref, Ref(Cell(block)), nh])
        if metrics.variant != 0:
            raise Unsupported('insert_outpoints failed on a transaction-valid block')
        dm = prog.src.find_adt(['types', 'BlockMetrics'])
        delta = metrics.fields[0].v.fields[dm.fields.index('utxo_delta')].v
        ts = btc.TreeScenario([])
        concretize_ts(ts, {1: 1})
        tree = ts.build_tree(it, prog, utxo_delta={1: delta})
        H.get_field(prog, ts.blocks[1], 'CachedBlock', 'block_hash').v = bh
        ub = ts.build_unstable(it, prog, SInt(2, 'u32'), 2, tree=tree, outpoints_cache=ccell.v)
        d = prog.src.find_adt(['GenericState'])
        svals = dict(utxos=us, unstable_blocks=ub)
        state = Agg('GenericState', [Cell(svals.get(f, Opaque(f))) for f in d.fields])
        sref = Ref(Cell(state))
        before = readers(it, prog, usref, ub, bh, spec, sref)
        # unsliced reference run on an independent copy
        ref_it_state = None
        rounds = 0
        r = it.call('UtxoSet::ingest_block', [usref, block])
        dsl = prog.src.find_adt(['types', 'Slicing'])
        paused_d = dsl.variant('Paused')[1][3]
        positions = []
        length_reported = []
        while True:
            rounds += 1
            if rounds > nitems + 2:
                cands.add(kernel='s', role='ingestion-does-not-finish', model=it.model_ if it.feasible() else None, spec=name, rounds=rounds)
                return
            if r.variant != paused_d:
                break
            ib = H.get_field(prog, us, 'UtxoSet', 'ingesting_block').v
            if ib.variant != 1:
                cands.add(kernel='s', role='paused-without-ingesting-block', model=None, spec=name)
                return
            di = prog.src.find_adt(['IngestingBlock'])
            g = lambda f: ib.fields[0].v.fields[di.fields.index(f)].v.t
            positions.append((g('next_tx_idx'), g('next_input_idx'), g('next_output_idx')))
            mid = readers(it, prog, usref, ub, bh, spec, sref)
            # the length counter is judged separately so that its (listed) defect cannot end the schedule early and hide
            # what the other readers do at later pauses
            main_before = {k: v for k, v in before.items() if k != ('utxos_length',)}
            dk = differs(it, rep, main_before, {k: mid[k] for k in main_before})
            if dk is not None:
                cands.add(kernel='s', role='answer-changes-while-paused:%s' % dk[0][0], model=dk[1] if dk[1] is not None else (it.model_ if it.feasible() else None),
                          spec=name, pause_positions=list(positions), key=str(dk[0]), before=str(before[dk[0]])[:300], during=str(mid[dk[0]])[:300])
                return
            if not length_reported:
                dl = differs(it, rep, {('utxos_length',): before[('utxos_length',)]}, {('utxos_length',): mid[('utxos_length',)]})
                if dl is not None:
                    length_reported.append(1)
                    cands.add(kernel='s', role='answer-changes-while-paused:utxos_length', model=dl[1] if dl[1] is not None else (it.model_ if it.feasible() else None),
                              spec=name, pause_positions=list(positions), key="('utxos_length',)", before=str(before[('utxos_length',)])[:100],
                              during=str(mid[('utxos_length',)])[:100])
            sl['calls_in_round'] = 0
            r = it.call('UtxoSet::ingest_block_continue', [usref])
            if r.variant != 1:
                cands.add(kernel='s', role='continue-returns-none-while-paused', model=None, spec=name)
                return
            r = r.fields[0].v
        # resume positions strictly increase (never skip back / repeat)
        if any(positions[i] >= positions[i + 1] for i in range(len(positions) - 1)):
            cands.add(kernel='s', role='resume-positions-not-increasing', model=None, spec=name, pause_positions=positions)
            return
        seen.add(len(positions))
        final = maps_snapshot(prog, us)
        # unsliced reference run on the same path (same symbolic values): the final maps must be identical
        sl['calls_in_round'] = -10 ** 9          # never pause
        led2, us2, block2, nh2, vals2 = build(it, prog, spec, lambda it_: False)
        r2 = it.call('UtxoSet::ingest_block', [Ref(Cell(us2)), block2])
        if r2.variant == paused_d:
            raise Unsupported('unsliced reference run paused')
        ref = maps_snapshot(prog, us2)
        for part in ('utxos', 'index', 'balances'):
            a, b = final[part], ref[part]
            if len(a) != len(b):
                cands.add(kernel='s', role='final-state-depends-on-schedule', model=it.model_ if it.feasible() else None, spec=name,
                          pause_positions=list(positions), part=part, sliced=str(a)[:400], unsliced=str(b)[:400])
                return
            for x, y in zip(a, b):
                conds = []
                for u, v in zip(x, y):
                    if isinstance(u, (tuple, str)) or isinstance(v, (tuple, str)):
                        if u != v:
                            conds = None
                            break
                    else:
                        conds.append(zterm(u) != zterm(v))
                m = True if conds is None else (check_unsat(it, rep, z3.Or(*conds)) if conds else None)
                if m is not None:
                    cands.add(kernel='s', role='final-state-depends-on-schedule', model=None if m is True else m, spec=name,
                              pause_positions=list(positions), part=part, sliced=str(x), unsliced=str(y))
                    return
        m = check_unsat(it, rep, zterm(final['next_height']) != zterm(ref['next_height']))
        if m is not None or final['ingesting'] != ref['ingesting']:
            cands.add(kernel='s', role='final-state-depends-on-schedule', model=m, spec=name, pause_positions=list(positions), part='next_height')
        return tuple(positions)

    results = explore(prog, scenario, stats=st, on_panic=lambda it, e: cands.add(
        kernel='s', role='trap', model=it.model_ if it.feasible() else None, spec=name, msg=str(e)[:300]))
    finals = [r for r in results if r is not None]
    if finals and () not in finals:
        cands.add(kernel='s', role='no-unsliced-schedule', model=None, spec=name, vacuity=True)
    if len(seen) >= 2:
        rep.cov['witnesses'] += 1
    rep.add_stats(st, 's:sliced-ingestion')
    rep.cov['shapes'] += 1
    rep.sample(dict(block=name, transactions=[dict(inputs=[list(i) for i in ins], outputs=outs) for ins, outs in spec], schedules=len(finals),
                    max_pauses=max(seen) if seen else 0))
    return (rep.cov, cands.items, rep.inconclusive)


def kernel_heartbeat(prog, rep, cands):
    """the heartbeat returns before fetching / processing when ingestion reports Paused or Done(true)"""
    st = Stats()

    def scenario(it):
        btc.install(it, STUBS)
        which = it.choose(3, 'ingest-outcome')
        dsl = prog.src.find_adt(['types', 'Slicing'])
        outcome = [H.mk_variant(prog, 'Slicing', 'Paused', UNIT), H.mk_variant(prog, 'Slicing', 'Done', True), H.mk_variant(prog, 'Slicing', 'Done', False)][which]
        calls = []
        ov = it.overrides
        ov['collect_metrics'] = ov['maybe_burn_cycles'] = lambda it_, k, r, a: UNIT
        ov['heartbeat::ingest_stable_blocks_into_utxoset'] = ov['ingest_stable_blocks_into_utxoset'] = lambda it_, k, r, a: outcome
        ov['maybe_fetch_blocks'] = lambda it_, k, r, a: (calls.append('fetch'), LeafFuture(lambda it2: False))[1]
        ov['maybe_process_response'] = lambda it_, k, r, a: (calls.append('process'), UNIT)[1]
        ov['maybe_compute_fee_percentiles'] = lambda it_, k, r, a: (calls.append('fees'), UNIT)[1]
        co = Cell(it.call('heartbeat', []))
        st_, _ = poll_once(it, co)
        if st_ != 'ready':
            raise Unsupported('heartbeat suspended with stubbed fetch')
        if which in (0, 1) and calls:
            cands.add(kernel='hb', role='heartbeat-continues-after-ingestion-work', model=None, outcome=['Paused', 'Done(true)'][which], calls=calls)
        if which == 2 and 'fetch' not in calls:
            cands.add(kernel='hb', role='heartbeat-does-not-fetch-when-idle', model=None, calls=calls)
        return which
    res = explore(prog, scenario, stats=st)
    if sorted(res) == [0, 1, 2]:
        rep.cov['witnesses'] += 1
    rep.add_stats(st, 'hb:heartbeat-gating')


def confirm(cand, known):
    doc = dict(property=PROP, role=cand['role'], summary={k: v for k, v in cand.items() if k not in ('shape',)}, problems=[])
    role = cand['role']
    if role.startswith('answer-changes-while-paused') or role in ('final-state-depends-on-schedule', 'trap', 'ingestion-does-not-finish'):
        res = native_sliced(cand.get('spec', 'spend-stable'))
        doc['native'] = res
        res = [r for r in res if isinstance(r, dict)]
        bad = [r for r in res if r.get('differs')]
        traps = [r for r in res if r.get('trap')]
        if traps:
            doc['problems'].append('native sliced ingestion traps: %s' % traps[0].get('trap'))
            return 'violation', doc
        if bad:
            keys = set()
            for r in bad:
                for dd in r['differs']:
                    for kk in ('A', 'B', 'utxos_length'):
                        if dd['before'].get(kk) != dd['during'].get(kk):
                            keys.add(kk)
            doc['native_differing_answers'] = sorted(keys)
            doc['problems'].append('answers change while the block is paused (native): %s, e.g. utxos_length %s -> %s' % (
                sorted(keys), bad[0]['differs'][0]['before'].get('utxos_length'), bad[0]['differs'][0]['during'].get('utxos_length')))
            if keys == {'utxos_length'} and role == 'answer-changes-while-paused:utxos_length':
                for k in known:
                    if k['id'] == 'C08-utxos-length-during-ingestion' and k.get('status') == 'known':
                        return 'known:' + k['id'], doc
            return 'violation', doc
        finals = [json.dumps(r.get('after'), sort_keys=True) for r in res]
        if len(set(finals)) > 1:
            doc['problems'].append('final answers depend on the slicing (native)')
            return 'violation', doc
        return 'not-reproduced', doc
    doc['problems'].append(role)
    return 'violation', doc


def native_sliced(name):
    """the same block shape through the real canister with the instruction-step hook forcing a pause at every position"""
    spec = SPECS[name]
    scen = []
    for step in (0, 2, 3, 4):
        scen.append(dict(ops=[dict(op='sliced_ingest', spec=[dict(inputs=[list(i) for i in ins], outputs=outs) for ins, outs in spec],
                                   stable=[list(x) for x in STABLE], pause_every=step)]))
    return [r[-1] for r in C.run_native(scen, tag='c08')]


def translator_validation(rep):
    for name in QUICK:
        for r in native_sliced(name):
            if isinstance(r, dict) and not r.get('trap') and r.get('rounds', 0) >= 1:
                rep.cov['traces_validated_against_impl'] += 1


def main():
    global PROG
    tier = C.tier()
    rep = H.Report(PROP, tier)
    prog = PROG = H.load_program(['canister'])
    btc.load_dep_decls(prog)
    rep.cov['mir'] = dict(prog.info)
    names = QUICK if tier == 'quick' else list(SPECS)
    rep.cov['bounds'] = dict(blocks=names, per_block='<= 4 transactions, <= 2 inputs and <= 3 outputs each; inputs spend stable outputs or outputs created earlier in the same block',
                             stable_set='4 outputs (two addresses + one non-address script) with symbolic values at distinct heights', schedules='every set of pause positions (first predicate call of a round is false)',
                             outside='StableBTreeMap internals and byte encodings (struct-level maps); blocks larger than the bound; the address-scan range (C01 k1)')
    rep.cov['functions_encoded'] = ['UtxoSet::{ingest_block,ingest_block_continue,ingest_tx_with_slicing,remove_inputs,insert_outputs,insert_utxo,get_balance,get_utxo,get_address_outpoints}',
                                    'UtxosDelta::{insert,remove,get_added_outpoints,get_removed_outpoints,is_outpoint_added,is_outpoint_removed,get_utxo}', 'IngestingBlock::new',
                                    'insert_outpoints', 'OutPointsCache::{new,get_tx_out,get_added_outpoints,get_removed_outpoints}', 'AddressUtxoSet::{new,apply_block,into_iter}',
                                    'MultiIter::{new,next}', '<Utxo as Ord>::cmp', 'state::blockchain_info', 'heartbeat (poll fn)']
    rep.cov['stubs'] = btc.stub_docs(STUBS) + ['ledger model of mirsym/ledger.py (ids, scripts, Utxos as one map, address index at struct level with byte order, balances)',
                                              'should_time_slice -> false on the first call of a round, then nondeterministic']
    rep.assumptions = ['the IC resets the instruction counter per message, so the first slicing predicate of a round is false (default predicate)',
                       'blocks are transaction-valid (inputs exist unspent on the block\'s chain): the domain of the statement']
    cands = Cands()
    for part in parallel(names, worker):
        merge_partial(rep, cands, part)
    kernel_heartbeat(prog, rep, cands)
    translator_validation(rep)
    settle(rep, PROP, cands, confirm, H.load_known(PROP), cap=4, describe=lambda d: str(d.get('problems'))[:400])
    return rep.finish()


if __name__ == '__main__':
    C.run_check(main)
