"""Shared pieces of the fork-tree checks (C02, C03, C04, C05, C06, C07)."""
import os, sys, time
import z3
sys.path.insert(0, os.path.dirname(os.path.dirname(os.path.abspath(__file__))))
from checks import common as C
from mirsym import harness as H, btc
from mirsym.interp import (Interp, explore, Stats, Agg, Cell, SInt, Ref, VecV, SliceRef, StrV, Opaque, UNIT, Panic,
                           Unsupported, some, none, ok, err, tup)
from mirsym.models_std import deref, ListIter


def check_unsat(it, rep, cond):
    """is `cond` impossible on the current path?  returns None if unsat, else a model"""
    it.solver.push()
    it.solver.add(cond)
    t = time.time()
    r = it.solver.check()
    it.nq += 1
    it.solver_s += time.time() - t
    m = it.solver.model() if r == z3.sat else None
    it.solver.pop()
    if r == z3.unknown:
        raise Unsupported('solver unknown in property query')
    if r == z3.unsat:
        rep.cov['unsat'] += 1
        return None
    # sat under the uninterpreted multiplication: refine with the real products before believing the model
    from mirsym import interp as _I
    if _I._MUL_TERMS:
        it.solver.push()
        it.solver.add(cond)
        for (t_, x, y) in _I._MUL_TERMS:
            it.solver.add(t_ == x * y)
        it.solver.set('timeout', 30000)
        r2 = it.solver.check()
        it.nq += 1
        m2 = it.solver.model() if r2 == z3.sat else None
        it.solver.pop()
        it.solver.set('timeout', 60000)
        if r2 == z3.unsat:
            rep.cov['unsat'] += 1
            rep.cov['spurious_under_uninterpreted_mul'] = rep.cov.get('spurious_under_uninterpreted_mul', 0) + 1
            return None
        if m2 is not None:
            m = m2
    rep.cov['sat'] += 1
    return m


def check_sat(it, rep, cond):
    """reachability witness: `cond` must be possible on this path"""
    it.solver.push()
    it.solver.add(cond)
    r = it.solver.check()
    it.nq += 1
    it.solver.pop()
    return r == z3.sat


def zterm(v):
    t = v.t if isinstance(v, SInt) else v
    return z3.IntVal(t) if isinstance(t, int) else t


def mval(m, t):
    if isinstance(t, int):
        return t
    return m.eval(t, model_completion=True).as_long()


def empty_slice():
    return SliceRef(VecV(), 0, 0)


def mk_state(it, prog, ts, net=2, thr=None, sh=None, extra=None):
    """a State around the tree scenario; ledger parts are opaque (their use is recorded by stubs)"""
    if sh is None:
        sh = it.fresh('stable_h', 'u32', 0, (1 << 31))
    thr = thr if thr is not None else it.fresh('thr', 'u32', 1, None)
    utxos = H.mk_struct(prog, 'UtxoSet', utxos=Opaque('utxos'), network=btc.network(prog, net), address_utxos=Opaque('au'),
                        balances=Opaque('bal'), next_height=sh, should_time_slice=Opaque('sts'), ingesting_block=none())
    ub = ts.build_unstable(it, prog, thr, net)
    d = prog.src.find_adt(['GenericState'])
    vals = dict(utxos=utxos, unstable_blocks=ub)
    vals.update(extra or {})
    fields = [Cell(vals.get(f, Opaque(f))) for f in d.fields]
    return Agg('GenericState', fields), sh, thr


def sfield(prog, state, name):
    return H.get_field(prog, state, 'GenericState', name)


def native_ops(ts, diffs, thr=2, extra=(), net='regtest', coinbase=True, stable_prefix=0):
    anchor = dict(id=1, difficulty=str(diffs[1]))
    if coinbase:
        anchor['coinbase'] = [[7, 1001]]
    ops = [dict(op='init', network=net, threshold=thr, anchor=anchor, **({'stable_prefix': stable_prefix} if stable_prefix else {}))]
    for k, p in enumerate(ts.parents):
        i = k + 2
        o = dict(op='push', id=i, parent=p, difficulty=str(diffs[i]))
        if coinbase:
            o['coinbase'] = [[7, 1000 + i]]
        ops.append(o)
    ops.extend(extra)
    return ops


def model_diffs(ts, m):
    return {i: (mval(m, ts.d[i]) if m is not None else 1) for i in ts.d}


def oracle_best_leaf(ts, diffs):
    """best leaf by the C02 text, on concrete numbers"""
    best = None
    for l in ts.leaves:
        key = (sum(diffs[j] for j in ts.path(l)), len(ts.path(l)), -ts.pre[l])
        if best is None or key > best[0]:
            best = (key, l)
    return best[1]


def random_tree(r, nmin=2, nmax=8):
    n = r.randint(nmin, nmax)
    parents = [r.randint(1, i) for i in range(1, n)]
    ts = btc.TreeScenario(parents)
    style = r.randint(0, 3)
    diffs = {i: (1 if style == 0 else r.randint(1, 3) if style == 1 else r.choice([1, 1, 2, 50]) if style == 2
                 else r.randint(1, 10 ** 6)) for i in ts.d}
    return ts, diffs


def concretize_ts(ts, diffs, times=None):
    for i in list(ts.d):
        ts.d[i] = diffs[i]
        ts.t[i] = (times or {}).get(i, 0)


def shapes_upto(N, forks_only_above=None):
    for n in range(1, N + 1):
        for parents in H.all_shapes(n):
            if forks_only_above is not None and n > forks_only_above:
                ts = btc.TreeScenario(parents)
                if len(ts.leaves) < 2:
                    continue
            yield parents


def plain(v, model):
    """make a candidate field picklable: z3 terms are evaluated in the model"""
    if isinstance(v, SInt):
        v = v.t
    if isinstance(v, z3.ExprRef):
        if model is None:
            return str(v)
        r = model.eval(v, model_completion=True)
        try:
            return r.as_long()
        except Exception:
            return str(r)
    if isinstance(v, dict):
        return {k: plain(x, model) for k, x in v.items()}
    if isinstance(v, (list, tuple)):
        return [plain(x, model) for x in v]
    return v


class Cands:
    """candidate violations found by the solver (plain data: shape descriptor + concrete values from the model),
    grouped by role, to be confirmed natively"""
    def __init__(self):
        self.items = []

    def add(self, ts=None, model=None, **kw):
        d = {k: plain(v, model) for k, v in kw.items()}
        if ts is not None:
            d['shape'] = ts.descriptor()
            d['parents'] = ts.parents if len(ts.parents) < 40 else ts.descriptor()
            d['diffs'] = {i: (mval(model, ts.d[i]) if model is not None else (ts.d[i] if isinstance(ts.d[i], int) else 1))
                          for i in ts.d if i <= getattr(ts, 'skeleton_n', ts.n)}
            d['times'] = {i: (mval(model, ts.t[i]) if model is not None else 0)
                          for i in ts.t if i <= getattr(ts, 'skeleton_n', ts.n)}
        d['has_model'] = model is not None
        self.items.append(d)
        if os.environ.get('VERIF_DEBUG'):
            print('CAND', d, flush=True)

    def by_role(self):
        d = {}
        for c in self.items:
            d.setdefault((c['kernel'], c['role']), []).append(c)
        return d


def parallel(jobs, fn, nproc=None):
    """run fn(job) for every job in forked worker processes (the loaded program is inherited); results in job order.
    fn returns picklable data; an Unsupported raised in a worker is re-raised here."""
    import multiprocessing as mp
    nproc = nproc or int(os.environ.get('VERIF_JOBS', '0') or 0) or min(14, os.cpu_count() or 4)
    if nproc <= 1 or len(jobs) <= 1:
        return [fn(j) for j in jobs]
    ctx = mp.get_context('fork')
    with ctx.Pool(nproc, maxtasksperchild=None) as pool:
        out = pool.map(_guard(fn), jobs, chunksize=1)
    for o in out:
        if isinstance(o, tuple) and len(o) == 2 and o[0] == '__unsupported__':
            raise Unsupported(o[1])
    return out


class _guard:
    def __init__(self, fn):
        self.fn = fn

    def __call__(self, job):
        try:
            return self.fn(job)
        except Unsupported as e:
            return ('__unsupported__', str(e))
        except BaseException as e:    # noqa
            import traceback
            return ('__unsupported__', 'worker crashed: %s' % traceback.format_exc()[-1500:])


def merge_partial(rep, cands, part):
    """part = (cov dict of a worker-local Report, candidate list, inconclusive)"""
    cov, items, inc = part
    for k in ('states', 'transitions', 'queries', 'unsat', 'sat', 'witnesses', 'shapes', 'traces_validated_against_impl'):
        rep.cov[k] += cov.get(k, 0)
    rep.cov['solver_s'] = round(rep.cov['solver_s'] + cov.get('solver_s', 0), 2)
    for kname, kv in cov.get('kernels', {}).items():
        k = rep.cov['kernels'].setdefault(kname, dict(paths=0, queries=0, mir_blocks=0, panics=0, solver_s=0.0))
        for a in ('paths', 'queries', 'mir_blocks', 'panics'):
            k[a] += kv[a]
        k['solver_s'] = round(k['solver_s'] + kv['solver_s'], 2)
    for smp in cov.get('samples', []):
        rep.sample(smp, cap=8)
    cands.items.extend(items)
    if inc and not rep.inconclusive:
        rep.inconclusive = inc


def settle(rep, prop, cands, confirm, known, cap=8, describe=None):
    """replay candidates natively and turn them into VIOLATION / KNOWN-FINDING / INCONCLUSIVE verdicts.
    confirm(cand) -> (verdict, doc) with verdict in {'violation', 'known:<id>', 'not-reproduced'}"""
    for key, cs in cands.by_role().items():
        if any(c.get('vacuity') for c in cs):
            rep.inconclusive = 'vacuity: %s %s' % (key, cs[0].get('parents'))
            continue
        verdicts = {}
        # replay the structurally simplest counterexamples first (fork-free, then small): a listed finding that needs a
        # fork can then never hide a new violation that also occurs without one
        def simplicity(c):
            par = c.get('shape', (None, []))[1]
            leaves = len(par) + 1 - len(set(par)) if par else 1
            return (leaves, len(par))
        cs = sorted(cs, key=simplicity)
        for c in cs[:cap]:
            C.LAST_NATIVE = None
            v, doc = confirm(c, known)
            if isinstance(doc, dict) and C.LAST_NATIVE is not None and len(C.LAST_NATIVE) <= 4:
                doc['scenarios'] = C.LAST_NATIVE
            if isinstance(doc, dict) and C.LAST_NATIVE is None and not doc.get('summary', {}).get('native') and not any(str(k).startswith('native') for k in doc):
                # roles without a native replay route (internal functions with no public observation point): said in the
                # replay document; everything else is replayed against the real build before it is reported
                doc['native_replay'] = 'none available for this role: the verdict rests on the symbolic execution of the MIR'
            else:
                rep.cov['traces_validated_against_impl'] += 1
            verdicts.setdefault(v, []).append(doc)
        if 'violation' in verdicts:
            rep.violations.append(C.save_replay(prop, key[1], verdicts['violation'][0]))
        elif any(v.startswith('known:') for v in verdicts):
            for v, docs in verdicts.items():
                if v.startswith('known:'):
                    line = '%s %s (%d solver counterexamples of this role, %d replayed)' % (
                        v[6:], (describe(docs[0]) if describe else docs[0].get('summary', '')), len(cs), len(docs))
                    rep.known_hit.append(line)
                    rep.sample(dict(known_finding=v[6:], scenario=docs[0].get('summary') or docs[0].get('parents')))
        else:
            rep.inconclusive = 'counterexample for role %s did not reproduce natively (model or stub wrong)' % (key,)
            C.save_replay(prop, 'unreproduced_' + key[1], verdicts['not-reproduced'][0])
    rep.cov['candidates'] = len(cands.items)
