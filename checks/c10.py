#!/usr/bin/env python3
"""C10 - a block is admitted iff it is new, connected and valid; rejects are atomic.

Kernels (MIR of ic-btc-canister, regenerated from /repo):
  p  heartbeat::maybe_process_response + state::insert_block + ValidationContext::new + unstable_blocks::push (+ BlockTree::
     find_mut / extend / CachedBlock::new_cached, NextBlockHeaders::remove, refresh_tip_depths_cache) on every tree up to 4
     blocks and every response of up to 3 blocks, each block with: decodes?, parent in {each tree block, each earlier block
     of the response, a stable-only ancestor, unknown}, identical to an existing block?, validator verdict.
     A block is in the tree afterwards <=> all earlier ones were admitted and it decodes, connects, is new and valid; on the
     first failure exactly one of the two error counters grows by one, the rest of the response is dropped and nothing else
     that is modelled changes; no path traps.
  h  state::insert_next_block_headers with garbage / invalid / duplicate / unconnected / connected announced headers: never a
     trap, a header is stored iff it decodes, is not yet stored, connects (tree or stored header) and the validator accepts.
  s  the canister's HeaderStore implementation (ValidationContext::{get_with_block_hash, get_with_height, height}).
"""
import os, sys, time, json, itertools
import z3
sys.path.insert(0, os.path.dirname(os.path.dirname(os.path.abspath(__file__))))
from checks import common as C
from checks.treelib import *   # noqa: F401,F403
from checks.c14 import flag, hdr, install_header_hash, nbh_maps
from checks.c03 import CacheNative, attach_cache, tree_ids
from mirsym.models_coll import MapV

PROP = 'C10'
STUBS = ['print', 'perf_counter', 'blockhash_to_vec', 'blockhash_from']
PROG = None


def mk_world(it, prog, ts, sh):
    btc.install(it, STUBS)
    install_header_hash(it, prog)
    for i in ts.d:
        ts.d[i] = 1
        ts.t[i] = 0
    nbh = H.mk_struct(prog, 'NextBlockHeaders', hash_to_height_and_header=MapV('BTreeMap'), height_to_hash=MapV('BTreeMap'))
    # headers of the tree blocks carry their id in the nonce (Header::block_hash stub)
    ub = ts.build_unstable(it, prog, SInt(2, 'u32'), 2, next_block_headers=nbh)
    dh = prog.src.find_adt(['bitcoin', 'blockdata', 'block', 'Header'])
    for i, cb in ts.blocks.items():
        H.get_field(prog, cb, 'CachedBlock', 'header').v = hdr(prog, i, ts.par.get(i, 0))
    cache = CacheNative(range(1, ts.n + 1), btc.network(prog, 2))
    attach_cache(prog, ts, cache)
    dss = prog.src.find_adt(['SyncingState'])
    sv = dict(syncing=flag(prog, True), is_fetching_blocks=False, response_to_process=none(), num_get_successors_rejects=SInt(0, 'u64'),
              num_block_deserialize_errors=SInt(0, 'u64'), num_insert_block_errors=SInt(0, 'u64'))
    sync = Agg('SyncingState', [Cell(sv.get(f, Opaque(f))) for f in dss.fields])
    utxos = H.mk_struct(prog, 'UtxoSet', utxos=Opaque('utxos'), network=btc.network(prog, 2), address_utxos=Opaque('au'),
                        balances=Opaque('bal'), next_height=sh, should_time_slice=Opaque('sts'), ingesting_block=none())
    d = prog.src.find_adt(['GenericState'])
    vals = dict(utxos=utxos, unstable_blocks=ub, syncing_state=sync)
    state = Agg('GenericState', [Cell(vals.get(f, Opaque(f))) for f in d.fields])
    sref = Ref(Cell(state))
    ov = it.overrides
    ov['with_state'] = lambda it_, k, r, a: it_.call_value(a[0], [sref])
    ov['with_state_mut'] = lambda it_, k, r, a: it_.call_value(a[0], [sref])
    ov['duration_since_epoch'] = ov['runtime::duration_since_epoch'] = lambda it_, k, r, a: Opaque('now')
    ov['Histogram::observe'] = ov['InstructionHistogram::observe'] = lambda it_, k, r, a: UNIT
    ov['into_bitcoin_network'] = ov['types::into_bitcoin_network'] = lambda it_, k, r, a: Opaque('btcnet')
    ov['insert_outpoints'] = ov['outpoints_cache::insert_outpoints'] = lambda it_, k, r, a: ok(Opaque('metrics'))
    ov['CachedBlock::set_metrics'] = lambda it_, k, r, a: UNIT
    # ic_btc_types::Block model: Agg('Block', [id, header])
    ov['Block::new'] = lambda it_, k, r, a: a[0]
    ov['Block::header'] = lambda it_, k, r, a: Ref(deref(a[0]).fields[1])
    ov['Block::block_hash'] = lambda it_, k, r, a: Ref(Cell(btc.bh(deref(a[0]).fields[0].v.t)))
    ov['Block::internal_bitcoin_block'] = lambda it_, k, r, a: a[0]
    ov['Block::difficulty'] = lambda it_, k, r, a: SInt(1, 'u128')
    return dict(state=state, sref=sref, ub=ub, sync=sync, dss=dss, nbh=nbh, cache=cache)


def counters(w):
    g = lambda f: w['sync'].fields[w['dss'].fields.index(f)].v.t
    return g('num_block_deserialize_errors'), g('num_insert_block_errors')


def worker_p(job):
    parents, nresp = job
    prog = PROG
    rep = H.Report(PROP, 'quick')
    cands = Cands()
    ts = btc.TreeScenario(parents)
    st = Stats()
    n = ts.n
    seen = set()

    def scenario(it):
        sh = it.fresh('stable_h', 'u32', 0, 1 << 30)
        w = mk_world(it, prog, ts, sh)
        prog_ = prog
        # response blocks: ids 101.. ; a block may instead re-send an existing block (same id)
        specs = []
        blobs = []
        for k in range(nresp):
            decodes = it.choose(2, 'decodes') == 0
            if not decodes:
                specs.append(dict(decodes=False))
                blobs.append(VecV([Cell(SInt(200 + k, 'u8'))]))
                continue
            known_ids = list(range(1, n + 1)) + [101 + j for j in range(k) if specs[j].get('decodes') and not specs[j].get('dup')]
            same_as = it.choose(2, 'duplicate')                   # 1: re-send of an existing block
            # 900 stable-only ancestor, 901 unknown, 902 a header that was only announced (next block header on top of the last tree
            # block; its block was never delivered), 903 an announced header on top of 902
            parent_opts = list(range(1, n + 1)) + [101 + j for j in range(k)] + [900, 901, 902, 903]
            if same_as:
                bid = known_ids[it.choose(len(known_ids), 'dup-of')]
                par = ts.par.get(bid, 900) if bid <= n else specs[bid - 101].get('parent', 901) if specs[bid - 101].get('decodes') else 901
                if bid == 1:
                    par = 900
            else:
                bid = 101 + k
                par = parent_opts[it.choose(len(parent_opts), 'parent')]
            if same_as and bid > 100:
                verdict = specs[bid - 101]['valid']        # a re-sent block is the same block: same verdict
            elif same_as:
                verdict = True
            else:
                verdict = it.choose(2, 'verdict') == 0
            specs.append(dict(decodes=True, id=bid, parent=par, valid=verdict, dup=bool(same_as)))
            blobs.append(VecV([Cell(SInt(bid, 'u8')), Cell(SInt(par % 256, 'u8'))]))
        by_blob = {}
        for s_, b in zip(specs, blobs):
            by_blob[id(b)] = s_
        it.c10_specs = specs
        # announced headers 902 <- 903 on top of tree block n (stored the way insert_next_block_header stores them)
        nbhref = Ref(Cell(w['nbh'])) if not isinstance(w['nbh'], Ref) else w['nbh']
        hn = sh.t + len(ts.path(n)) - 1
        it.call('NextBlockHeaders::insert', [nbhref, hdr(prog_, 902, n), SInt(hn + 1, 'u32')])
        it.call('NextBlockHeaders::insert', [nbhref, hdr(prog_, 903, 902), SInt(hn + 2, 'u32')])

        def decode(it_, k, r, a):
            v = deref(a[0])
            vec = v.vec if isinstance(v, SliceRef) else v
            s_ = by_blob.get(id(vec))
            if s_ is None:
                raise Unsupported('decode of an unknown blob')
            if not s_['decodes']:
                return err(Opaque('decode error'))
            return ok(Agg('Block', [Cell(SInt(s_['id'], 'u64')), Cell(hdr(prog_, s_['id'], s_['parent']))]))
        it.overrides['<Block as Decodable>::consensus_decode'] = decode
        validated = []

        def validate_block(it_, k, r, a):
            bid = deref(a[1]).fields[0].v.t
            validated.append(bid)
            s_ = [x for x in specs if x.get('id') == bid][0]
            return ok(UNIT) if s_['valid'] else err(Opaque('ValidateBlockError'))
        it.overrides['BlockValidator::validate_block'] = validate_block
        it.overrides['BlockValidator::new'] = lambda it_, k, r, a: Opaque('validator')
        it.overrides['insert_next_block_headers'] = it.overrides['state::insert_next_block_headers'] = lambda it_, k, r, a: UNIT
        resp = H.mk_struct(prog, 'types::GetSuccessorsCompleteResponse', blocks=VecV([Cell(b) for b in blobs]), next=VecV())
        w['sync'].fields[w['dss'].fields.index('response_to_process')].v = some(H.mk_variant(prog, 'ResponseToProcess', 'Complete', resp))
        before = set(tree_ids(prog, H.get_field(prog, w['ub'], 'GenericUnstableBlocks', 'tree').v))
        it.call('maybe_process_response', [])
        after = tree_ids(prog, H.get_field(prog, w['ub'], 'GenericUnstableBlocks', 'tree').v)
        de, ie = counters(w)
        # oracle
        present = set(before)
        exp_de = exp_ie = 0
        admitted = []
        for s_ in specs:
            if not s_['decodes']:
                exp_de = 1
                break
            okb = (s_['parent'] in present) and (s_['id'] not in present) and s_['valid']
            if not okb:
                exp_ie = 1
                break
            present.add(s_['id'])
            admitted.append(s_['id'])
        info = dict(specs=specs, tree_after=after, expected=sorted(present), counters=[de, ie], expected_counters=[exp_de, exp_ie])
        seen.add((exp_de, exp_ie, len(admitted)))
        if len(after) != len(set(after)):
            cands.add(kernel='p', role='block-twice-in-tree', ts=ts, model=None, **info)
            return
        if set(after) != present:
            cands.add(kernel='p', role='admission-differs-from-rule', ts=ts, model=None, **info)
            return
        if (de, ie) != (exp_de, exp_ie):
            cands.add(kernel='p', role='error-counters', ts=ts, model=None, **info)
            return
        # atomic reject: the cache holds exactly the tree blocks; the response slot is empty; the tree structure of the old
        # blocks is unchanged (parents preserved)
        if sorted(w['cache'].ids) != sorted(present):
            cands.add(kernel='p', role='block-cache-differs-from-tree', ts=ts, model=None, cache=sorted(w['cache'].ids), **info)
            return
        if w['sync'].fields[w['dss'].fields.index('response_to_process')].v.variant != 0:
            cands.add(kernel='p', role='response-not-consumed', ts=ts, model=None, **info)

    explore(prog, scenario, stats=st, on_panic=lambda it, e: cands.add(kernel='p', role='trap', ts=ts, model=None, msg=str(e)[:300], specs=getattr(it, 'c10_specs', None)))
    rep.add_stats(st, 'p:maybe_process_response')
    rep.cov['shapes'] += 1
    if len(seen) >= 3:
        rep.cov['witnesses'] += 1
    if sum(parents) % 2 == 0:
        rep.sample(dict(kernel='p', parents=parents, response_blocks=nresp, paths=st.paths, outcome_classes=sorted(map(str, seen))[:6]))
    return (rep.cov, cands.items, rep.inconclusive)


def worker_h(job):
    parents = job
    prog = PROG
    rep = H.Report(PROP, 'quick')
    cands = Cands()
    ts = btc.TreeScenario(parents)
    st = Stats()
    n = ts.n
    K = 3

    def scenario(it):
        sh = it.fresh('stable_h', 'u32', 0, 1 << 30)
        w = mk_world(it, prog, ts, sh)
        specs, blobs = [], []
        for k in range(K):
            kind = it.choose(2, 'decodes')
            if kind == 1:
                specs.append(dict(decodes=False))
            else:
                opts = list(range(1, n + 1)) + [301 + j for j in range(k)] + [901]
                dup = it.choose(2, 'dup') == 1 and k > 0
                if dup:
                    j = it.choose(k, 'dup-of')
                    specs.append(dict(specs[j], dup=True))
                else:
                    par = opts[it.choose(len(opts), 'parent')]
                    specs.append(dict(decodes=True, id=301 + k, parent=par, valid=it.choose(2, 'verdict') == 0))
            blobs.append(Agg('BlockHeaderBlob', [Cell(VecV([Cell(SInt(k, 'u8'))]))]))
        bymark = {k: s_ for k, s_ in enumerate(specs)}

        def hdecode(it_, k, r, a):
            v = deref(a[0])
            cells = v.cells() if isinstance(v, SliceRef) else v.cells
            s_ = bymark[cells[0].v.t]
            if not s_['decodes']:
                return err(Opaque('decode error'))
            return ok(hdr(prog, s_['id'], s_['parent']))
        it.overrides['<Header as Decodable>::consensus_decode'] = hdecode
        it.overrides['BlockHeaderBlob::as_slice'] = lambda it_, k, r, a: SliceRef(deref(a[0]).fields[0].v, 0, 1)
        it.overrides['HeaderValidator::new'] = lambda it_, k, r, a: Agg('HV', [Cell(a[0])])

        def vh(it_, k, r, a):
            hid = deref(a[1]).fields[prog.src.find_adt(['bitcoin', 'blockdata', 'block', 'Header']).fields.index('nonce')].v.t
            s_ = [x for x in specs if x.get('id') == hid][0]
            return ok(UNIT) if s_['valid'] else err(Opaque('ValidateHeaderError'))
        it.overrides['HeaderValidator::validate_header'] = vh
        # bound: the per-heartbeat instruction threshold of this loop is not reached (reaching it only stops the loop early)
        it.overrides['inc_performance_counter'] = it.overrides['runtime::inc_performance_counter'] = lambda it_, k, r, a: SInt(0, 'u64')
        sl = SliceRef(VecV([Cell(b) for b in blobs]), 0, len(blobs))
        it.call('state::insert_next_block_headers', [w['sref'], sl])
        by_hash, by_height = nbh_maps_sym(prog, w['nbh'], sh)
        # oracle: processing stops at the first header that fails to decode / validate / connect; duplicates are skipped
        stored = {}
        for s_ in specs:
            if not s_['decodes']:
                break
            if s_['id'] in stored:
                continue
            if not s_['valid']:
                break
            p = s_['parent']
            if p in stored:
                h = stored[p] + 1
            elif 1 <= p <= n:
                h = ts.height(p) + 1
            else:
                break
            stored[s_['id']] = h
        if by_hash != stored:
            cands.add(kernel='h', role='announced-headers-differ-from-rule', ts=ts, model=None, specs=specs, got=by_hash, expected=stored)

    explore(prog, scenario, stats=st, on_panic=lambda it, e: cands.add(kernel='h', role='trap', ts=ts, model=None, msg=str(e)[:300]))
    rep.add_stats(st, 'h:insert_next_block_headers')
    return (rep.cov, cands.items, rep.inconclusive)


def nbh_maps_sym(prog, nbh, sh):
    from checks.c14 import off
    d = prog.src.find_adt(['NextBlockHeaders'])
    m1 = nbh.fields[d.fields.index('hash_to_height_and_header')].v
    m2 = nbh.fields[d.fields.index('height_to_hash')].v
    by_hash = {btc.bh_id(k): off(c.v.fields[0].v.t, sh.t) for k, c in m1.entries}
    by_height = {}
    for k, c in m2.entries:
        by_height[off(k.t, sh.t)] = [btc.bh_id(x.v) for x in c.v.cells]
    return by_hash, by_height


def worker_s(job):
    """the canister's HeaderStore implementation over stable store + unstable chain"""
    parents = job
    prog = PROG
    rep = H.Report(PROP, 'quick')
    cands = Cands()
    ts = btc.TreeScenario(parents)
    st = Stats()

    def scenario(it):
        sh = it.fresh('stable_h', 'u32', 2, 1 << 30)
        w = mk_world(it, prog, ts, sh)
        stable_lookups = []
        it.overrides['BlockHeaderStore::get_with_block_hash'] = lambda it_, k, r, a: (stable_lookups.append(('hash', btc.bh_id(a[1]))), none())[1]
        it.overrides['BlockHeaderStore::get_with_height'] = lambda it_, k, r, a: (stable_lookups.append(('height', a[1].t)), some(hdr(prog, 777, 776)))[1]
        it.overrides['<BlockHash as From>::from'] = lambda it_, k, r, a: a[0] if isinstance(a[0], Agg) else btc.STUBS['blockhash_from'][1](it_, k, r, a)
        ident = lambda it_, k, r, a: deref(a[0])
        it.overrides['BlockHash::as_raw_hash'] = it.overrides['<Hash as Hash>::as_byte_array'] = ident
        from mirsym.models_std import MODELS as _M
        it.overrides['impl#[T]::to_vec'] = lambda it_, k, r, a: deref(a[0]) if isinstance(deref(a[0]), Agg) and deref(a[0]).ty == 'BlockHash' else _M['impl#[T]::to_vec'](it_, k, r, a)
        tip = ts.leaves[it.choose(len(ts.leaves), 'tip')]
        path = ts.path(tip)
        cand_hdr = hdr(prog, 555, tip)
        ctxr = it.call('ValidationContext::new', [w['sref'], Ref(Cell(cand_hdr))])
        if ctxr.variant != 0:
            cands.add(kernel='s', role='context-refused-for-connected-new-header', ts=ts, model=None, tip=tip)
            return
        ctx = Ref(Cell(ctxr.fields[0].v))
        hgt = it.call('<ValidationContext as HeaderStore>::height', [ctx])
        m = check_unsat(it, rep, zterm(hgt.t) != sh.t + len(path) - 1)
        if m is not None:
            cands.add(kernel='s', role='store-height', ts=ts, model=m, tip=tip)
            return
        for k, b in enumerate(path):
            r = it.call('<ValidationContext as HeaderStore>::get_with_height', [ctx, SInt(sh.t + k, 'u32')])
            if r.variant != 1 or r.fields[0].v.fields[prog.src.find_adt(['bitcoin', 'blockdata', 'block', 'Header']).fields.index('nonce')].v.t != b:
                cands.add(kernel='s', role='get_with_height-unstable', ts=ts, model=None, tip=tip, height_offset=k)
                return
            r = it.call('<ValidationContext as HeaderStore>::get_with_block_hash', [ctx, Ref(Cell(btc.bh(b)))])
            if r.variant != 1:
                cands.add(kernel='s', role='get_with_block_hash-unstable', ts=ts, model=None, tip=tip, block=b)
                return
        del stable_lookups[:]
        r = it.call('<ValidationContext as HeaderStore>::get_with_height', [ctx, SInt(sh.t - 1, 'u32')])
        if not stable_lookups or stable_lookups[-1][0] != 'height':
            cands.add(kernel='s', role='stable-height-not-served-from-the-store', ts=ts, model=None, tip=tip)
            return
        r = it.call('<ValidationContext as HeaderStore>::get_with_height', [ctx, SInt(sh.t + len(path), 'u32')])
        if r.variant != 0:
            cands.add(kernel='s', role='height-above-tip-answered', ts=ts, model=None, tip=tip)
            return
        off_chain = [b for b in range(1, ts.n + 1) if b not in path]
        for b in off_chain[:2]:
            del stable_lookups[:]
            r = it.call('<ValidationContext as HeaderStore>::get_with_block_hash', [ctx, Ref(Cell(btc.bh(b)))])
            if r.variant != 0:
                cands.add(kernel='s', role='header-of-another-fork-served', ts=ts, model=None, tip=tip, block=b)
                return

    explore(prog, scenario, stats=st, on_panic=lambda it, e: cands.add(kernel='s', role='trap', ts=ts, model=None, msg=str(e)[:300]))
    rep.add_stats(st, 's:ValidationContext-as-HeaderStore')
    return (rep.cov, cands.items, rep.inconclusive)


def worker(job):
    kind = job[0]
    if kind == 'p':
        return worker_p(job[1:])
    if kind == 'h':
        return worker_h(job[1])
    return worker_s(job[1])


def native_response(items):
    scen = [dict(ops=[dict(op='init', network='regtest', threshold=6), dict(op='process_response', blocks=i)]) for i in items]
    return [r[-1] for r in C.run_native(scen, tag='c10')]


def translator_validation(rep):
    """real blocks through the real heartbeat: valid chain, duplicate, orphan, garbage, bad merkle root"""
    cases = [
        ([dict(kind='valid', id=2, parent=1), dict(kind='valid', id=3, parent=2)], [1, 2, 3], (0, 0)),
        ([dict(kind='valid', id=2, parent=1), dict(kind='dup', of=2), dict(kind='valid', id=3, parent=2)], [1, 2], (0, 1)),
        ([dict(kind='garbage'), dict(kind='valid', id=2, parent=1)], [1], (1, 0)),
        ([dict(kind='valid', id=2, parent=1), dict(kind='orphan', id=9), dict(kind='valid', id=3, parent=2)], [1, 2], (0, 1)),
        ([dict(kind='bad_merkle', id=2, parent=1), dict(kind='valid', id=3, parent=1)], [1], (0, 1)),
        ([dict(kind='valid', id=2, parent=1), dict(kind='valid', id=3, parent=1), dict(kind='valid', id=4, parent=3)], [1, 2, 3, 4], (0, 0)),
        ([dict(kind='truncated', id=2, parent=1)], [1], (1, 0)),
        ([dict(kind='dup', of=1)], [1], (0, 1)),
    ]
    for (blocks, tree, ctr), got in zip(cases, native_response([c[0] for c in cases])):
        if got.get('tree') == tree and (got.get('deserialize_errors'), got.get('insert_errors')) == ctr and not got.get('trap'):
            rep.cov['traces_validated_against_impl'] += 1
        else:
            rep.inconclusive = 'native maybe_process_response %s -> %s, expected tree %s counters %s' % (blocks, got, tree, ctr)


def confirm(cand, known):
    doc = dict(property=PROP, role=cand['role'], summary={k: v for k, v in cand.items() if k not in ('shape', 'diffs', 'times')}, problems=[])
    if cand['kernel'] == 'p' and cand.get('specs'):
        # replay the same response natively on a linear tree of the same blocks where possible
        ts = btc.TreeScenario(list(cand['shape'][1]))
        blocks = [dict(kind='valid', id=i, parent=ts.par[i]) for i in range(2, ts.n + 1)]
        resp = []
        for s_ in cand['specs']:
            if not s_.get('decodes'):
                resp.append(dict(kind='garbage'))
            elif s_.get('dup'):
                resp.append(dict(kind='dup', of=s_['id']))
            elif s_['parent'] in (902, 903):
                resp.append(dict(kind='valid' if s_['valid'] else 'bad_merkle', id=s_['id'], parent=s_['parent']))     # child of an announced-only header
            elif s_['parent'] >= 900:
                resp.append(dict(kind='orphan', id=s_['id']))
            elif not s_['valid']:
                resp.append(dict(kind='bad_merkle', id=s_['id'], parent=s_['parent']))
            else:
                resp.append(dict(kind='valid', id=s_['id'], parent=s_['parent']))
        scen = [dict(ops=[dict(op='init', network='regtest', threshold=6), dict(op='process_response', blocks=blocks),
                          dict(op='announce', on=ts.n, count=2, ids=[902, 903]), dict(op='process_response', blocks=resp, keep=True)])]
        got = C.run_native(scen, tag='c10cx')[0][-1]
        doc['native'] = got
        exp_tree = sorted(cand.get('expected') or cand.get('tree_before') or [])
        if cand['role'] == 'trap':
            if got.get('trap'):
                doc['problems'].append('native heartbeat traps on response %s: %s' % (resp, str(got.get('trap'))[:200]))
                return 'violation', doc
            return 'not-reproduced', doc
        if sorted(got.get('tree', [])) != exp_tree or got.get('trap'):
            doc['problems'].append('native tree %s, rule %s (response %s)' % (got.get('tree'), exp_tree, resp))
            return 'violation', doc
        return 'not-reproduced', doc
    doc['problems'].append(cand['role'])
    return 'violation', doc


def main():
    global PROG
    tier = C.tier()
    rep = H.Report(PROP, tier)
    prog = PROG = H.load_program(['canister'])
    btc.load_dep_decls(prog)
    rep.cov['mir'] = dict(prog.info)
    N = 3 if tier == 'quick' else 5
    R = 2 if tier == 'quick' else 3
    rep.cov['bounds'] = dict(tree_blocks=N, response_blocks=R, announced_headers=3, stable_height='symbolic u32',
                             per_block='decodes? x parent in {tree blocks, earlier response blocks, stable-only, unknown, a header that was only announced, an announced header on top of that} x re-send of an existing block? x validator verdict',
                             outside='the validator verdict itself (C11, C12) and byte-level decoding (dependency); transaction-validity of block contents (delegated to proof of work by the statement)')
    rep.cov['functions_encoded'] = ['heartbeat::maybe_process_response', 'state::insert_block', 'ValidationContext::{new,new_with_next_block_headers}',
                                    '<ValidationContext as HeaderStore>::{get_with_block_hash,get_with_height,height}', 'unstable_blocks::{push,get_chain_with_tip}',
                                    'BlockTree::{find_mut,extend,extend_cached,get_chain_with_tip(+_reverse),get_child_blocks,tip_depths}', 'CachedBlock::new_cached',
                                    'state::insert_next_block_headers', 'GenericUnstableBlocks::{insert_next_block_header,has_next_block_header,get_next_block_headers_chain_with_tip,refresh_tip_depths_cache}',
                                    'NextBlockHeaders::{insert,remove,get_height,get_header}']
    rep.cov['stubs'] = btc.stub_docs(STUBS) + ['bitcoin::Block / Header consensus_decode -> Ok(block model) / Err per blob', 'BlockValidator::validate_block, HeaderValidator::validate_header -> verdict per block (C11/C12)',
                                              'insert_outpoints -> Ok (C20)', 'dyn BlocksCache -> set of ids', 'Header::block_hash -> injective id', 'ic_btc_types::Block accessors -> model']
    rep.assumptions = ['std models faithful', 'a stable-only ancestor is not part of the unstable tree (so a block extending it does not connect)']
    cands = Cands()
    jobs = []
    for parents in shapes_upto(N):
        for nresp in range(1, R + 1):
            jobs.append(('p', parents, nresp))
        jobs.append(('h', parents))
        jobs.append(('s', parents))
    jobs.sort(key=lambda j: -(len(j[1]) * 3 + (j[2] if len(j) > 2 else 1)))
    for part in parallel(jobs, worker):
        merge_partial(rep, cands, part)
    translator_validation(rep)
    settle(rep, PROP, cands, confirm, H.load_known(PROP), cap=5, describe=lambda d: str(d.get('problems'))[:300])
    return rep.finish()


if __name__ == '__main__':
    C.run_check(main)
