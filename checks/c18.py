#!/usr/bin/env python3
"""C18 - watchdog HTTP transforms are total, canonical and strip everything else  (partial claim, see DESIGN.md).

What is decided by the solver-based engine (MIR of the watchdog crate, regenerated from /repo):
  f  every transform entry point transform_* -> endpoint_*().transform(raw) -> the endpoint's closure -> apply_to_body(_json)
     with the HTTP status a symbolic natural number, the headers and the request context opaque values, and the body an
     *input that is initialised lazily*: String::from_utf8 and serde_json::from_str / str::parse::<u64> are nondeterministic
     (error | value), and a parsed JSON value decides what it is only where the code looks at it (kind of the node, presence
     of the member / element asked for, the scalar's number class).  For every path:  no trap;  the result has no headers;
     the status is the input status;  the body is empty unless status = 200, the bytes are UTF-8 and the payload parses, and is
     then exactly the one-member object {"height": h | null} where h is the u64 at the explorer's documented position;
     nothing else of the response (headers, context, other members, member order - none of which the execution ever reads)
     can influence the result.
What is outside the engine's reach and NOT claimed (MANIFEST level_note): the JSON text parser and the canonical serialiser of
the serde_json dependency, and u64 text parsing (no MIR for dependencies; byte-level parser loops).  Their contracts as used
above (total: value or error, insensitive to whitespace / member order, serialiser canonical) are validated - not decided - by
running a corpus of payload variants through the real transforms natively.
"""
import os, sys, time, json
import z3
sys.path.insert(0, os.path.dirname(os.path.dirname(os.path.abspath(__file__))))
from checks import common as C
from checks.treelib import *   # noqa: F401,F403
from mirsym.interp import Native, PyFn, Opaque, deep_clone
from mirsym.models_std import deref, as_slice

PROP = 'C18'
PROG = None

# transform endpoint -> ('json', path of the extracted member) | ('text',)
SPEC = {
    'transform_bitcoin_mainnet_api_bitcore_io': ('json', [0, 'height']),
    'transform_bitcoin_mainnet_api_blockchair_com': ('json', ['data', 'best_block_height']),
    'transform_bitcoin_mainnet_api_blockcypher_com': ('json', ['height']),
    'transform_bitcoin_mainnet_blockchain_info': ('text',),
    'transform_bitcoin_mainnet_blockstream_info': ('text',),
    'transform_bitcoin_mempool': ('text',),
    'transform_dogecoin_mainnet_api_bitcore_io': ('json', [0, 'height']),
    'transform_dogecoin_mainnet_api_blockchair_com': ('json', ['data', 'best_block_height']),
    'transform_dogecoin_mainnet_api_blockcypher_com': ('json', ['height']),
    'transform_dogecoin_mainnet_psy_protocol': ('text',),
}
SCALARS = ['u64-small', 'u64-big', 'negative-int', 'float', 'string', 'bool', 'null']


class JV(Native):
    """serde_json::Value of the *input*, initialised lazily: kind in {lazy, scalar, object, array}"""
    ty = 'Value'

    def __init__(self, it, path=()):
        self.it, self.path = it, path
        self.kind = 'lazy'
        self.members = {}     # key -> JV | None (None = known absent)
        self.scalar = None
        self.num = None

    def log(self, what):
        self.it.c18_log.append((self.path, what))

    def become(self, kinds, label):
        if self.kind == 'lazy':
            self.kind = kinds[self.it.choose(len(kinds), label)]
            self.log('is-' + self.kind)
        return self.kind

    def index(self, key):
        want = 'object' if isinstance(key, str) else 'array'
        k = self.become([want, 'other'], 'kind@%s' % (self.path,))
        if k != want:
            return None
        if key not in self.members:
            present = self.it.choose(2, 'has %r@%s' % (key, self.path)) == 0
            self.members[key] = JV(self.it, self.path + (key,)) if present else None
            self.log(('has' if present else 'lacks') + ' %r' % (key,))
        return self.members[key]

    def scalar_class(self):
        k = self.become(['scalar', 'container'], 'kind@%s' % (self.path,))
        if k in ('object', 'array', 'container', 'other'):
            return None
        if self.scalar is None:
            self.scalar = SCALARS[self.it.choose(len(SCALARS), 'scalar@%s' % (self.path,))]
            if self.scalar == 'u64-small':
                self.num = self.it.fresh('n%s' % len(self.it.c18_log), 'u64', 0, (1 << 63) - 1)
            elif self.scalar == 'u64-big':
                self.num = self.it.fresh('n%s' % len(self.it.c18_log), 'u64', 1 << 63, (1 << 64) - 1)
            elif self.scalar == 'negative-int':
                self.num = self.it.fresh('n%s' % len(self.it.c18_log), 'i64', -(1 << 63), -1)
            self.log(('scalar ' + self.scalar, self.num.t if self.num is not None else None))
        return self.scalar

    def clone_value(self, it):
        return self           # input values are immutable: a clone shares the lazily made decisions

    def mcall(self, it, trait, method, args):
        if trait == 'Index' and method == 'index':
            return json_index(it, None, '', args)
        if trait == 'Clone':
            return self
        raise Unsupported('serde_json::Value::%s::%s on an input value' % (trait, method))


NULL_OUT = ('null',)


class JOut(Native):
    """a JSON value built by the code: ('null',) | ('u64', term) | ('object', [(key, JOut)]) | ('input', JV) | ('other', repr)"""
    ty = 'Value'

    def __init__(self, v):
        self.v = v

    def clone_value(self, it):
        return JOut(self.v)


class JMap(Native):
    ty = 'Map'

    def __init__(self):
        self.items = []


class Text(Native):
    """a String whose content is symbolic: ('input',) the decoded body | ('json', JOut) serialised value | ('empty',)"""
    ty = 'String'

    def __init__(self, v):
        self.v = v

    def clone_value(self, it):
        return Text(self.v)


def json_index(it, key, raw, args):
    v = deref(args[0])
    k = args[1]
    k = deref(k)
    if isinstance(k, StrV):
        k = k.s
    elif isinstance(k, SInt):
        k = k.t
        if not isinstance(k, int):
            raise Unsupported('symbolic array index into a JSON value')
    else:
        raise Unsupported('JSON index %r' % (k,))
    if isinstance(v, JOut):
        if v.v[0] == 'input':
            v = v.v[1]
        elif v.v[0] in ('null', 'u64'):
            return Ref(Cell(JOut(NULL_OUT)))        # Index on a non-container yields Null
        else:
            raise Unsupported('indexing a constructed JSON value')
    if not isinstance(v, JV):
        raise Unsupported('JSON index on %r' % (v,))
    r = v.index(k)
    return Ref(Cell(r if r is not None else JOut(NULL_OUT)))


def as_input(v):
    v = deref(v)
    if isinstance(v, JOut) and v.v[0] == 'input':
        return v.v[1]
    return v


def install(it, prog):
    ov = it.overrides
    it.c18_log = []
    ov['print'] = lambda it_, k, r, a: UNIT
    ov['http::create_request'] = ov['create_request'] = lambda it_, k, r, a: Opaque('request')

    # ---- candid::Nat status
    def nat_eq(it_, k, r, a):
        x, y = deref(a[0]), deref(a[1])
        xt = x.fields[0].v.t if isinstance(x, Agg) else x.t
        yt = y.fields[0].v.t if isinstance(y, Agg) else y.t
        return SInt(it_.branch(zterm(xt) == zterm(yt)) and 1 or 0, 'bool')
    ov['<Nat as PartialEq>::eq'] = nat_eq
    ov['<Nat as Clone>::clone'] = lambda it_, k, r, a: Agg('Nat', [Cell(SInt(deref(a[0]).fields[0].v.t, 'u128'))])
    ov['<HttpRequestResult as Default>::default'] = lambda it_, k, r, a: H.mk_struct(
        prog, 'ic_management_canister_types::HttpRequestResult', status=Agg('Nat', [Cell(SInt(0, 'u128'))]), headers=VecV([]), body=VecV([]))

    # ---- body decoding: nondeterministic
    def from_utf8(it_, k, r, a):
        body = a[0]
        if not (isinstance(body, Native) and getattr(body, 'is_body', False)):
            raise Unsupported('String::from_utf8 of something that is not the response body')
        if it_.choose(2, 'utf8') == 0:
            it_.c18_log.append(((), 'utf8-ok'))
            return ok(Text(('input',)))
        it_.c18_log.append(((), 'utf8-invalid'))
        return err(Opaque('FromUtf8Error'))
    ov['String::from_utf8'] = from_utf8

    def from_str(it_, k, r, a):
        t = deref(a[0])
        if not (isinstance(t, Text) and t.v == ('input',)):
            raise Unsupported('serde_json::from_str of something that is not the decoded body')
        if it_.choose(2, 'json') == 0:
            it_.c18_log.append(((), 'json-ok'))
            return ok(JV(it_))
        it_.c18_log.append(((), 'json-invalid'))
        return err(Opaque('serde_json::Error'))
    ov['serde_json::from_str'] = ov['from_str'] = from_str

    def parse_u64(it_, k, r, a):
        t = deref(a[0])
        if not (isinstance(t, Text) and t.v == ('input',)):
            raise Unsupported('str::parse of something that is not the decoded body')
        if 'u64' not in r:
            raise Unsupported('str::parse::<%s>' % r)
        if it_.choose(2, 'parse') == 0:
            n = it_.fresh('parsed', 'u64')
            it_.c18_log.append(((), ('text-u64', n.t)))
            return ok(n)
        it_.c18_log.append(((), 'text-not-u64'))
        return err(Opaque('ParseIntError'))
    ov['impl#str::parse'] = parse_u64
    ov['<String as Deref>::deref'] = lambda it_, k, r, a: deref(a[0])

    # ---- the decoded text as a string: symbolic length; slicing at a byte index traps beyond the end and inside a multi-byte character
    def text_len(it_, k, r, a):
        t = deref(a[0])
        if not (isinstance(t, Text) and t.v[0] in ('input', 'input-slice')):
            raise Unsupported('len of a string that is not the decoded body')
        if t.v[0] == 'input-slice':
            return SInt(zterm(t.v[2]) - zterm(t.v[1]), 'usize')
        if not hasattr(it_, 'c18_len'):
            it_.c18_len = it_.fresh('body_len', 'usize', 0, 1 << 32)
        return SInt(it_.c18_len.t, 'usize')
    ov['String::len'] = ov['impl#str::len'] = text_len

    def text_index(it_, k, r, a):
        t = deref(a[0])
        rg = a[1]
        if not (isinstance(t, Text) and t.v[0] in ('input', 'input-slice')):
            raise Unsupported('slicing a string that is not the decoded body')
        ln = text_len(it_, k, r, [t]).t
        base = t.v[1] if t.v[0] == 'input-slice' else 0
        nm = rg.ty if isinstance(rg, Agg) else ''
        fs = [c.v.t for c in rg.fields] if isinstance(rg, Agg) else []
        if nm.endswith('RangeTo'):
            lo, hi = 0, fs[0]
        elif nm.endswith('RangeFrom'):
            lo, hi = fs[0], ln
        elif nm.endswith('Range'):
            lo, hi = fs[0], fs[1]
        elif nm.endswith('RangeFull'):
            return Ref(Cell(t))
        else:
            raise Unsupported('string index by %r' % (rg,))
        if it_.branch(z3.Or(zterm(hi) > zterm(ln), zterm(lo) > zterm(hi))):
            it_.c18_log.append(((), ('slice-out-of-range', hi)))
            raise Panic('byte index out of range of the string')
        for nm_, ix in (('start', lo), ('end', hi)):
            # a boundary inside the text may fall into a multi-byte character (never at 0 or at the end)
            inside = z3.And(zterm(ix) > 0, zterm(ix) < zterm(ln))
            if it_.branch(inside):
                if it_.choose(2, 'char-boundary') == 1:
                    it_.c18_log.append(((), ('slice-inside-a-character', ix)))
                    raise Panic('byte index is not a char boundary')
        return Ref(Cell(Text(('input-slice', zterm(base) + zterm(lo), zterm(base) + zterm(hi)))))
    ov['<String as Index>::index'] = ov['<str as Index>::index'] = text_index
    ov['String::as_str'] = lambda it_, k, r, a: deref(a[0])

    # ---- JSON accessors on the lazy input
    ov['<Value as Index>::index'] = json_index

    def as_num(which):
        def f(it_, k, r, a):
            v = as_input(a[0])
            if isinstance(v, JOut):
                if v.v[0] == 'null':
                    return none()
                raise Unsupported('accessor on a constructed JSON value')
            c = v.scalar_class()
            if which == 'as_u64' and c in ('u64-small', 'u64-big'):
                return some(SInt(v.num.t, 'u64'))
            if which == 'as_i64' and c in ('u64-small', 'negative-int'):
                return some(SInt(v.num.t, 'i64'))
            if which == 'as_f64' and c in ('u64-small', 'u64-big', 'negative-int', 'float'):
                return some(Opaque('f64'))
            return none()
        return f
    for w in ('as_u64', 'as_i64', 'as_f64'):
        ov['Value::' + w] = as_num(w)
    ov['<Value as Clone>::clone'] = lambda it_, k, r, a: deref(a[0]).clone_value(it_) if isinstance(deref(a[0]), Native) else deep_clone(deref(a[0]))

    # ---- JSON construction (json! expansion) and serialisation
    ov['Map::new'] = lambda it_, k, r, a: JMap()

    def map_insert(it_, k, r, a):
        m = deref(a[0])
        key, val = a[1], a[2]
        key = key.s if isinstance(key, StrV) else repr(key)
        old = None
        for i, (kk, vv) in enumerate(m.items):
            if kk == key:
                old = vv
                m.items[i] = (key, val)
                break
        else:
            m.items.append((key, val))
        return some(old) if old is not None else none()
    ov['Map::insert'] = map_insert

    def to_value(it_, k, r, a):
        v = deref(a[0])
        if isinstance(v, Agg) and v.ty == 'Option':
            if v.variant == 0:
                return ok(JOut(NULL_OUT))
            v = v.fields[0].v
        if isinstance(v, SInt):
            if 'u64' in r or 'u32' in r or 'usize' in r:
                return ok(JOut(('u64', v.t)))
            return ok(JOut(('other', 'number of type in %s' % r)))
        if isinstance(v, (JV, JOut)):
            return ok(JOut(('input', v)) if isinstance(v, JV) else v)
        return ok(JOut(('other', repr(v)[:60])))
    ov['to_value'] = ov['serde_json::to_value'] = ov['value::to_value'] = to_value

    def to_string(it_, k, r, a):
        v = deref(a[0])
        return Text(('json', v))
    ov['<Value as ToString>::to_string'] = to_string
    ov['<String as Default>::default'] = ov['String::default'] = lambda it_, k, r, a: Text(('empty',))

    def into_bytes(it_, k, r, a):
        return a[0]
    ov['String::into_bytes'] = into_bytes


class Body(Native):
    ty = 'Vec'
    is_body = True


def canon(v):
    """structure of an output JSON value: python data with z3 terms at the leaves"""
    v = deref(v)
    if isinstance(v, JOut):
        if v.v[0] == 'object':
            return ('object', [(k, canon(x)) for k, x in v.v[1]])
        if v.v[0] == 'input':
            return ('input', v.v[1].path)
        return v.v
    if isinstance(v, JV):
        return ('input', v.path)
    if isinstance(v, Agg) and v.ty.endswith('Value'):
        d = PROG.src.find_adt(['serde_json', 'value', 'Value']) or PROG.src.find_adt(['Value'])
        name = [x[0] for x in d.variants if x[3] == v.variant][0]
        if name == 'Object':
            m = deref(v.fields[0].v)
            return ('object', [(k, canon(x)) for k, x in m.items])
        if name == 'Null':
            return NULL_OUT
        return ('other', name)
    return ('other', repr(v)[:60])


def expected_from_log(spec, log):
    """the statement's result for the lazily decided input: None = empty body, else ('null',) | ('u64', term)"""
    facts = {}
    for path, what in log:
        facts.setdefault(path, []).append(what)
    if 'utf8-ok' not in facts.get((), []):
        return None
    if spec[0] == 'text':
        for w in facts.get((), []):
            if isinstance(w, tuple) and w[0] == 'text-u64':
                return ('u64', w[1])
        return None
    if 'json-ok' not in facts.get((), []):
        return None
    return 'json'


def decisions_of(log):
    """[(path, what, value term | None)] - terms are evaluated in the counterexample's model when the candidate is recorded"""
    return [[list(map(str, p)), (w if not isinstance(w, tuple) else w[0]), (w[1] if isinstance(w, tuple) else None)] for p, w in log]


def worker(job):
    name = job
    prog = PROG
    rep = H.Report(PROP, 'quick')
    cands = Cands()
    st = Stats()
    spec = SPEC[name]
    seen = set()
    dres = prog.src.find_adt(['ic_management_canister_types', 'HttpRequestResult'])

    def scenario(it):
        install(it, prog)
        status = it.fresh('status', 'u128', 0, (1 << 64))
        it.c18_status = status.t
        body = Body()
        resp = H.mk_struct(prog, 'ic_management_canister_types::HttpRequestResult', status=Agg('Nat', [Cell(SInt(status.t, 'u128'))]), headers=Opaque('headers'), body=body)
        raw = H.mk_struct(prog, 'ic_management_canister_types::TransformArgs', response=resp, context=Opaque('context'))
        out = it.call(name, [raw])
        g = lambda f: out.fields[dres.fields.index(f)].v
        log = list(it.c18_log)
        info = dict(endpoint=name, decisions=decisions_of(log))
        mdl = lambda: it.model_ if it.feasible() else None
        # frame: no headers, status kept
        hd = g('headers')
        if not (isinstance(hd, VecV) and len(hd.cells) == 0):
            cands.add(kernel='f', role='result-has-headers', model=mdl(), status=status.t, **info)
            return
        st_out = g('status')
        m = check_unsat(it, rep, zterm(st_out.fields[0].v.t) != status.t)
        if m is not None:
            cands.add(kernel='f', role='status-not-kept', model=m, status=status.t, **info)
            return
        b = g('body')
        is200 = check_unsat(it, rep, status.t != 200) is None      # on this path the status is necessarily 200
        exp = expected_from_log(spec, log) if is200 else None
        # actual body
        if (isinstance(b, VecV) and len(b.cells) == 0) or (isinstance(b, StrV) and b.s == ''):
            got = None
        elif isinstance(b, Text):
            got = None if b.v == ('empty',) else (canon(b.v[1]) if b.v[0] == 'json' else ('raw-input',))
        elif isinstance(b, Body):
            got = ('raw-input',)
        else:
            got = ('other', repr(b)[:60])
        seen.add(('200' if is200 else 'not200', 'empty' if got is None else got[0]))
        if exp is None:
            if got is not None:
                cands.add(kernel='f', role='body-not-empty-for-a-response-without-height', model=mdl(), status=status.t, got=str(got)[:200], **info)
            return
        if exp == 'json':
            # the u64 at the documented position, else null: follow the log
            facts = {}
            for path, what in log:
                facts.setdefault(tuple(path), []).append(what)
            node = ()
            val = NULL_OUT
            okp = True
            for key in spec[1]:
                if ('has %r' % (key,)) in facts.get(node, []):
                    node = node + (key,)
                else:
                    okp = False
                    break
            num = None
            if okp:
                for w in facts.get(node, []):
                    if isinstance(w, tuple) and w[0] in ('scalar u64-small', 'scalar u64-big'):
                        val = 'u64'
                        num = w[1]
            want_kind = 'u64' if val == 'u64' else 'null'
        else:
            want_kind = 'u64'
        if got is None or got[0] != 'object' or len(got[1]) != 1 or got[1][0][0] != 'height':
            cands.add(kernel='f', role='body-is-not-the-single-member-height-object', model=mdl(), status=status.t, got=str(got)[:300], **info)
            return
        hv = got[1][0][1]
        if hv[0] != want_kind:
            cands.add(kernel='f', role='height-member-is-not-the-value-at-the-documented-position', model=mdl(), status=status.t, got=str(hv)[:200],
                      expected=want_kind, position=[str(x) for x in (spec[1] if spec[0] == 'json' else ['text'])], **info)
            return
        if want_kind == 'u64':
            # the number itself: the one the input carries at that position / the parsed text
            if exp == 'json':
                m = check_unsat(it, rep, zterm(hv[1]) != zterm(num))
                if m is not None:
                    cands.add(kernel='f', role='height-differs-from-the-number-at-the-documented-position', model=m, status=status.t, **info)
                    return
            else:
                m = check_unsat(it, rep, zterm(hv[1]) != zterm(exp[1]))
                if m is not None:
                    cands.add(kernel='f', role='height-differs-from-the-parsed-number', model=m, status=status.t, **info)
                    return
            m = check_unsat(it, rep, z3.Or(zterm(hv[1]) < 0, zterm(hv[1]) >= (1 << 64)))
            if m is not None:
                cands.add(kernel='f', role='height-out-of-u64', model=m, status=status.t, **info)
                return
        return want_kind

    explore(prog, scenario, stats=st, on_panic=lambda it, e: cands.add(kernel='f', role='trap', model=it.model_ if it.feasible() else None, endpoint=name, msg=str(e)[:300],
                                                                      status=getattr(it, 'c18_status', 200), decisions=decisions_of(getattr(it, 'c18_log', []))))
    rep.add_stats(st, 'f:transform-frame')
    rep.cov['shapes'] += 1
    need = {('not200', 'empty'), ('200', 'empty'), ('200', 'object')}
    if need <= seen:
        rep.cov['witnesses'] += 1
    else:
        rep.inconclusive = 'vacuity: %s reached only %s' % (name, sorted(seen))
    rep.sample(dict(kernel='f', endpoint=name, kind=spec[0], position=[str(x) for x in (spec[1] if spec[0] == 'json' else [])], paths=st.paths, outcomes=sorted(map(str, seen))))
    return (rep.cov, cands.items, rep.inconclusive)


# ------------------------------------------------------------------------------------------------ native corpus
def wrap_path(path, leaf_json, extras=False):
    """JSON text with `leaf_json` at `path`"""
    s = leaf_json
    for key in reversed(path):
        if isinstance(key, int):
            s = '[' + ', '.join(['{"x": 1}'] * key + [s] + (['{"height": 5, "zzz": [1, 2]}'] if extras else [])) + ']'
        else:
            members = ['"%s": %s' % (key, s)]
            if extras:
                members = ['"aaa": {"height": 7}'] + members + ['"zzz": "height"']
            s = '{' + ', '.join(members) + '}'
    return s


def corpus(name, r, nrand=40):
    """[(class label | None, status, headers, body bytes, expected body text | None=unspecified)]; bodies with the same class label
    must transform to identical bytes"""
    spec = SPEC[name]
    out = []
    H1 = [['Content-Type', 'application/json'], ['Date', 'Tue, 01 Jan 2030 00:00:00 GMT']]
    H2 = [['Set-Cookie', 'id=%d' % r.randint(0, 10 ** 9)], ['X-Request-Id', 'abc'], ['Date', 'Wed, 02 Jan 2030 00:00:01 GMT']]
    for h in (0, 1, 840000, (1 << 32), (1 << 53) + 1, (1 << 63), (1 << 64) - 1):
        exp = '{"height":%d}' % h
        if spec[0] == 'text':
            out.append((('h', h), 200, H1, str(h).encode(), exp))
            out.append((('h', h), 200, H2, str(h).encode(), exp))
        else:
            good = wrap_path(spec[1], str(h))
            rich = wrap_path(spec[1], str(h), extras=True)
            spaced = good.replace('{', '{\n  ').replace(':', ' :\t').replace(',', ' ,\r\n')
            for hd, bd in ((H1, good), (H2, good), (H1, rich), ([], spaced), (H2, ' ' + rich + '\n')):
                out.append((('h', h), 200, hd, bd.encode(), exp))
            # member order: the extracted member last / first among siblings
            if isinstance(spec[1][-1], str):
                a = wrap_path(spec[1][:-1], '{"%s": %d, "other": [1, {"%s": 3}]}' % (spec[1][-1], h, spec[1][-1]))
                b = wrap_path(spec[1][:-1], '{"other": [1, {"%s": 3}], "%s": %d}' % (spec[1][-1], spec[1][-1], h))
                out.append((('h', h), 200, H1, a.encode(), exp))
                out.append((('h', h), 200, H2, b.encode(), exp))
    # payloads without a usable height
    if spec[0] == 'json':
        for leaf in ('-1', '1.5', '1e3', '"840000"', 'null', 'true', '[]', '{}', '18446744073709551616', '-0'):
            out.append((('nullish',), 200, H1, wrap_path(spec[1], leaf).encode(), '{"height":null}'))
        out.append((('empty',), 200, H1, wrap_path(spec[1], '1E400').encode(), ''))      # number out of range: a parse error
        for bd in ('{}', '[]', 'null', '0', '"x"', '[[]]', '{"data": 5}', '{"height": {"height": 1}}', '[{"Height": 1}]', '{"data": {"best_block_height ": 1}}'):
            out.append((None, 200, H2, bd.encode(), None))
        for bd in ('', ' ', '{', '[', '{"height": ', '{"height": 1,}', "{'height': 1}", '[{"height": 1}', 'nul', '{"height": 01}', '{"a": 1} x', '﻿{"height": 1}',
                   '[' * 200 + ']' * 200, '{"height": 1' + ' ' * 5000):
            out.append((('empty',), 200, H1, bd.encode(), ''))
    else:
        for bd in ('', ' ', '-1', '1.5', '1e3', ' 12', '12 ', '12\n', '+12x', '0x10', '18446744073709551616', 'null', '{"height": 1}', '１２', '1_000'):
            out.append((('empty',), 200, H1, bd.encode(), ''))
        out.append((('h', 12), 200, H1, b'+12', '{"height":12}'))
        out.append((('h', 12), 200, H2, b'012', '{"height":12}'))
    # invalid UTF-8
    for bd in (b'\xff', b'{"height": 1}\xff', b'\xc3\x28', b'12\x80', b'\xed\xa0\x80'):
        out.append((('empty',), 200, H2, bd, ''))
    # other statuses: body dropped
    good = (wrap_path(spec[1], '5') if spec[0] == 'json' else '5').encode()
    for stt in (0, 100, 199, 201, 204, 301, 404, 429, 500, 503, 65536 + 200, (1 << 32) + 200):
        out.append((('empty',), stt, H1, good, ''))
    # random mutations of a good payload (truncations, byte flips): whatever they are, the frame must hold
    base = (wrap_path(spec[1], '840000', extras=True) if spec[0] == 'json' else '840000').encode()
    for _ in range(nrand):
        b = bytearray(base)
        k = r.randint(0, 3)
        if k == 0 and len(b) > 1:
            b = b[:r.randint(0, len(b) - 1)]
        elif k == 1:
            b[r.randint(0, len(b) - 1)] = r.randint(0, 255)
        elif k == 2:
            i = r.randint(0, len(b))
            b[i:i] = bytes([r.choice(b' \t\n,:{}[]"0-9ex.\\')])
        else:
            i = r.randint(0, len(b) - 1)
            del b[i]
        out.append((None, 200, H2, bytes(b), None))
    return out


def native_corpus(rep, cands, r, nrand=40):
    import re
    n = 0
    for name in sorted(SPEC):
        cp = corpus(name, r, nrand)
        ops = [dict(op='transform', name=name, status=s, headers=h, body_hex=b.hex()) for (_, s, h, b, _) in cp]
        res = C.run_native([dict(ops=ops)], tag='c18')[0]
        classes = {}
        for (cls, s, h, b, exp), r_ in zip(cp, res):
            probs = []
            if not isinstance(r_, dict):
                probs.append('no answer: %s' % str(r_)[:100])
            else:
                if r_.get('trap'):
                    probs.append('trap: %s' % r_['trap'][:100])
                if r_.get('headers') != 0:
                    probs.append('%s headers in the result' % r_.get('headers'))
                if str(r_.get('status')).replace('_', '') != str(s):
                    probs.append('status %s became %s' % (s, r_.get('status')))
                body = bytes.fromhex(r_.get('body_hex', ''))
                if body and not re.fullmatch(rb'\{"height":(null|0|[1-9][0-9]*)\}', body):
                    probs.append('body %r is neither empty nor the canonical height object' % body[:80])
                elif body and body != b'{"height":null}' and int(body[10:-1]) >= (1 << 64):
                    probs.append('height out of range: %r' % body[:80])
                if exp is not None and body != exp.encode():
                    probs.append('body %r, expected %r' % (body[:80], exp))
                if cls is not None:
                    classes.setdefault(cls, set()).add(body)
            if probs:
                cands.add(kernel='n', role='native-transform', model=None, native=True, endpoint=name, status=s, headers=h, body_hex=b.hex(), problems=probs)
            else:
                n += 1
        for cls, bodies in classes.items():
            if len(bodies) > 1:
                cands.add(kernel='n', role='native-transform-not-canonical', model=None, native=True, endpoint=name, problems=['class %s -> %s' % (cls, sorted(bodies))])
    rep.cov['traces_validated_against_impl'] += n


def confirm(cand, known):
    doc = dict(property=PROP, role=cand['role'], summary={k: v for k, v in cand.items() if k not in ('shape',)}, problems=[])
    if cand.get('native'):
        doc['problems'] = cand['problems'][:4]
        return 'violation', doc
    # a symbolic counterexample: build a concrete response that follows the lazily made decisions and run the real transform
    name = cand['endpoint']
    spec = SPEC[name]
    dec = cand.get('decisions') or []
    facts = {}
    vals = {}
    for p, w, v in dec:
        facts.setdefault(tuple(p), []).append(w)
        if v is not None:
            vals[w] = v
    status = cand.get('status', 200)
    status = status if isinstance(status, int) else 200
    top = facts.get((), [])
    if 'slice-inside-a-character' in top and isinstance(vals.get('slice-inside-a-character'), int):
        # valid UTF-8 that does not parse, with a two-byte character straddling the byte index the code slices at
        n = vals['slice-inside-a-character']
        body = (b'a' * (n - 1) + 'é'.encode() + b' <html>not json</html>') if 0 < n < 100000 else b'not json'
    elif 'utf8-invalid' in top:
        body = b'\xff\xfe'
    elif spec[0] == 'text':
        body = b'840000' if 'text-u64' in top else b'not a number'
    elif 'json-invalid' in top:
        body = b'{"height": '
    else:
        def build(path):
            ws = facts.get(tuple(map(str, path)), [])
            kind = [w for w in ws if w.startswith('is-')]
            if any(w.startswith('scalar ') for w in ws):
                sc = [w for w in ws if w.startswith('scalar ')][0][7:]
                return {'u64-small': '840000', 'u64-big': str((1 << 63) + 5), 'negative-int': '-3', 'float': '1.5', 'string': '"840000"', 'bool': 'true', 'null': 'null'}[sc]
            if kind and kind[0] == 'is-object':
                ms = []
                for w in ws:
                    if w.startswith('has '):
                        key = eval(w[4:])
                        ms.append('"%s": %s' % (key, build(list(path) + [key])))
                return '{' + ', '.join(ms + ['"unrelated": 1']) + '}'
            if kind and kind[0] == 'is-array':
                for w in ws:
                    if w.startswith('has '):
                        key = eval(w[4:])
                        return '[' + ', '.join(['0'] * key + [build(list(path) + [key])]) + ']'
                return '[]'
            if kind and kind[0] in ('is-other', 'is-container'):
                return '"a string"' if kind[0] == 'is-other' else '{"k": [1]}'
            return '17'
        body = build([]).encode()
    res = C.run_native([dict(ops=[dict(op='transform', name=name, status=status, headers=[['X-A', 'b']], body_hex=body.hex())])], tag='c18c')[0][0]
    doc['native'] = res
    doc['request'] = dict(status=status, body=body.decode('latin1'))
    import re
    out = bytes.fromhex(res.get('body_hex', '')) if isinstance(res, dict) else b'?'
    if isinstance(res, dict) and res.get('trap'):
        doc['problems'] = ['real transform traps for status %s body %r: %s' % (status, body[:80], res['trap'][:160])]
        return 'violation', doc
    bad = (not isinstance(res, dict)) or res.get('headers') != 0 or str(res.get('status')).replace('_', '') != str(status) or \
        (out and not re.fullmatch(rb'\{"height":(null|0|[1-9][0-9]*)\}', out)) or (status != 200 and out)
    if cand['role'] in ('height-member-is-not-the-value-at-the-documented-position', 'body-is-not-the-single-member-height-object', 'body-not-empty-for-a-response-without-height'):
        # compare with the statement's answer for this concrete body
        want = expected_native(spec, status, body)
        doc['expected_body'] = want.decode()
        bad = bad or out != want
    if bad:
        doc['problems'] = ['real transform returns %r for status %s body %r' % (out[:100], status, body[:200])]
        return 'violation', doc
    return 'not-reproduced', doc


def expected_native(spec, status, body):
    if status != 200:
        return b''
    try:
        text = body.decode('utf-8')
    except UnicodeDecodeError:
        return b''
    if spec[0] == 'text':
        import re
        return ('{"height":%d}' % int(text)).encode() if re.fullmatch(r'\+?[0-9]+', text) and int(text) < (1 << 64) else b''
    try:
        v = json.loads(text)
    except ValueError:
        return b''
    for key in spec[1]:
        if isinstance(key, int):
            v = v[key] if isinstance(v, list) and len(v) > key else None
        else:
            v = v.get(key) if isinstance(v, dict) else None
    if isinstance(v, int) and not isinstance(v, bool) and 0 <= v < (1 << 64):
        return ('{"height":%d}' % v).encode()
    return b'{"height":null}'


def main():
    global PROG
    tier = C.tier()
    rep = H.Report(PROP, tier)
    prog = PROG = H.load_program(['watchdog'], decl_crates=('watchdog', 'interface'))
    import glob
    for pat, segs in (('~/.cargo/registry/src/*/ic-management-canister-types-0.7.1/src/lib.rs', ['ic_management_canister_types']),
                      ('~/.cargo/registry/src/*/serde_json-1.0.14*/src/value/mod.rs', ['serde_json', 'value'])):
        fs = sorted(glob.glob(os.path.expanduser(pat)))
        if not fs:
            raise Unsupported('dependency source %s not found' % pat)
        prog.src.load_file(fs[0], segs)
    rep.cov['mir'] = dict(prog.info)
    rep.cov['bounds'] = dict(endpoints=sorted(SPEC), status='symbolic natural number < 2^64', body='lazily initialised: UTF-8 validity, parse outcome, node kinds / member presence / number class decided where the code looks',
                             outside='serde_json text parser and serialiser, u64 text parsing, candid Nat arithmetic (dependencies without MIR): contracts validated natively on a payload corpus, not decided')
    rep.cov['functions_encoded'] = ['transform_* (10 query entry points)', 'endpoints::endpoint_* (+ their extractor closures)', 'HttpRequestConfig::{new,transform}', 'endpoints::apply_to_body', 'endpoints::apply_to_body_json']
    rep.cov['stubs'] = ['String::from_utf8 -> Ok(decoded body) | Err', 'serde_json::from_str -> Ok(lazy value) | Err', 'str::parse::<u64> -> Ok(symbolic u64) | Err',
                        'serde_json::Value Index / as_u64 / as_i64 / as_f64 / clone on the lazy input', 'json! expansion: Map::new / Map::insert / to_value / Value::to_string -> structural output value',
                        'candid::Nat == u8, clone', 'HttpRequestResult::default -> status 0, no headers, empty body', 'http::create_request -> opaque (request building is not part of the transform result)', 'print -> no-op']
    rep.assumptions = ['the JSON parser returns a value or an error for every text and is insensitive to whitespace and member order; Value::to_string is canonical (validated natively on the corpus, not decided)']
    cands = Cands()
    for part in parallel(sorted(SPEC), worker):
        merge_partial(rep, cands, part)
    native_corpus(rep, cands, C.rng(), 40 if tier == 'quick' else 1000)
    settle(rep, PROP, cands, confirm, H.load_known(PROP), cap=3, describe=lambda d: str(d.get('problems'))[:400])
    return rep.finish()


if __name__ == '__main__':
    C.run_check(main)
