#!/usr/bin/env python3
"""C03 - finality: blocks stabilise only by the difficulty rule and never revert.

Kernels (MIR regenerated from /repo):
  k1  unstable_blocks::get_stable_child on every arrival-ordered tree up to N blocks x {mainnet, testnet, regtest},
      difficulties and threshold symbolic, the f64 depth bound replaced by the table of the *real* function
      (evaluated natively for the scenario's block count)  vs. the rule of the property text (both directions)
  k2  the same on "tailed" trees: small skeletons whose leaves carry long bare chains, so that the total reaches
      the 1500-block soft limit / branch depths reach the adaptive bound (testnet / regtest escape)
  k3  unstable_blocks::pop: the new root is the chosen child, it is the second block of the chain that was being
      served, exactly the siblings' subtrees leave the tree, the old anchor is returned
  k4  state::ingest_stable_blocks_into_utxoset under every pause/resume schedule of the (stubbed) UTXO ingestion:
      recorded stable heights are consecutive, never rewritten, the popped block is the ingested one (no trap)
"""
import os, sys, time, json
import z3
sys.path.insert(0, os.path.dirname(os.path.dirname(os.path.abspath(__file__))))
from checks import common as C
from checks.treelib import *   # noqa: F401,F403
from mirsym.interp import Native, Closure

PROP = 'C03'
STUBS = ['print', 'perf_counter', 'blockhash_to_vec', 'blockhash_from', 'block_block_hash']


# ------------------------------------------------------------------------------------------- depth-bound stub
class DepthTable:
    """values of the real testnet_unstable_max_depth_difference(n, t) for t = 0..499, per block count n"""
    def __init__(self):
        self.tab = {}

    def need(self, ns):
        ns = [n for n in ns if n not in self.tab]
        if not ns:
            return
        res = C.run_native([dict(ops=[dict(op='depth_bound', n=n, thresholds=list(range(0, 501)))]) for n in ns], tag='c03tab')
        for n, r in zip(ns, res):
            self.tab[n] = r[0]

    def term(self, n, thr):
        """z3 term of f(n, thr): piecewise constant in min(thr, 499) (the clamp itself is proven by the Kani harness
        `depth_bound_clamp`); table entry 500 is kept to cross-check the clamp natively"""
        t = self.tab[n]
        if t[499] != t[500]:
            raise Unsupported('depth bound table: f(n,499) != f(n,500) - clamp contract broken')
        if isinstance(thr, int):
            return t[min(thr, 499)]
        expr = z3.IntVal(t[499])
        for k in range(498, -1, -1):
            if t[k] != t[k + 1]:
                expr = z3.If(thr <= k, z3.IntVal(t[k]), expr)
        return expr


def install_depth_stub(it, dt, ts_n_hint=None):
    def f(it_, key, raw, args):
        n, thr = args
        if not isinstance(n.t, int):
            raise Unsupported('symbolic block count')
        dt.need([n.t])
        d = dt.term(n.t, thr.t)
        it_.globals['D'] = d
        return Agg('Depth', [Cell(SInt(d, 'u64'))])
    it.overrides['testnet_unstable_max_depth_difference'] = f
    it.overrides['unstable_blocks::testnet_unstable_max_depth_difference'] = f


# ------------------------------------------------------------------------------------------- oracle
def zmax(xs):
    r = xs[0]
    for x in xs[1:]:
        r = z3.If(x > r, x, r)
    return r


def rule(ts, kids, thr, net, D, W, depth):
    """the property's rule.  returns (may(i), must(i)) dicts.
    difficulty rule: W(i) >= thr*d(anchor) and W(i) - W(j) >= thr*d(anchor) for every sibling j.
    testnet/regtest escape: i is the heaviest child, depth(i) >= D and depth(i) - depth(runner-up) >= D, where the
    runner-up is the second child in accumulated difficulty; when several children tie for heaviest / runner-up the
    statement does not say which one is meant: `may` accepts any reading, `must` requires all readings."""
    from mirsym.interp import sym_mul
    T = sym_mul(zterm(ts.d[1]), zterm(thr))
    may, must = {}, {}
    for i in kids:
        others = [j for j in kids if j != i]
        diffrule = z3.And(W[i] >= T, *[W[i] - W[j] >= T for j in others])
        if net == 0:
            may[i] = must[i] = diffrule
            continue
        dz = lambda a, b: z3.IntVal(max(depth[a] - depth[b], 0))
        if not others:
            esc_may = esc_must = z3.IntVal(depth[i]) >= D
        else:
            om = zmax([W[j] for j in others])
            heaviest = z3.And(*[W[i] >= W[j] for j in others])
            strict = z3.And(*[W[i] > W[j] for j in others])
            base = z3.IntVal(depth[i]) >= D
            esc_may = z3.And(heaviest, base, z3.Or(*[z3.And(W[r] == om, dz(i, r) >= D) for r in others]))
            esc_must = z3.And(strict, base, z3.And(*[z3.Implies(W[r] == om, dz(i, r) >= D) for r in others]))
        may[i] = z3.Or(diffrule, esc_may)
        must[i] = z3.Or(diffrule, esc_must)
    return may, must


# ------------------------------------------------------------------------------------------- tailed trees
class TailedTree(btc.TreeScenario):
    """skeleton tree plus bare chains ("tails") hanging below chosen leaves; tail blocks have difficulty 1"""
    def __init__(self, parents, tails):
        # tails: {leaf id: length}
        full = list(parents)
        self.skeleton_n = len(parents) + 1
        self.tail_of = {}
        nid = self.skeleton_n
        for leaf, ln in sorted(tails.items()):
            prev = leaf
            for _ in range(ln):
                nid += 1
                full.append(prev)
                self.tail_of[nid] = leaf
                prev = nid
        self.tails = dict(tails)
        super().__init__(full)
        for i in self.tail_of:
            self.d[i] = 1          # concrete: keeps long chains cheap; the skeleton's difficulties stay symbolic
            self.t[i] = 0

    def assume_ranges(self, it, dmax=1 << 100):
        for i in range(1, self.skeleton_n + 1):
            it.declare_bounds(self.d[i], 1, dmax - 1)
            it.declare_bounds(self.t[i], 0, (1 << 32) - 1)

    def descriptor(self):
        return ('tailed', list(self.parents[:self.skeleton_n - 1]), dict(self.tails))

    def describe(self, model=None):
        d = dict(parents=self.parents[:self.skeleton_n - 1], tails=self.tails)
        if model is not None:
            d['difficulty'] = {i: mval(model, self.d[i]) for i in range(1, self.skeleton_n + 1)}
        return d

    # iterative versions (tails are thousands of blocks long)
    def depth(self, i):
        memo = getattr(self, '_depth', None)
        if memo is None:
            memo = self._depth = {}
            for j in range(self.n, 0, -1):
                memo[j] = 1 + max([memo[c] for c in self.ch[j]], default=0)
        return memo[i]

    def subtree_work(self, i):
        memo = getattr(self, '_sw', None)
        if memo is None:
            memo = self._sw = {}
            for j in range(self.n, 0, -1):
                if not self.ch[j]:
                    memo[j] = self.d[j]
                else:
                    ws = [memo[c] for c in self.ch[j]]
                    if all(isinstance(w, int) for w in ws):
                        m = max(ws)
                    else:
                        m = zterm(ws[0])
                        for w in ws[1:]:
                            m = z3.If(zterm(w) > m, zterm(w), m)
                    memo[j] = self.d[j] + m
        return memo[i]


def k_stable_child(prog, rep, cands, dt, scen_iter, kernel):
    """common body of k1/k2: run get_stable_child (+ pop: k3) and compare with the rule"""
    st = Stats()
    nscen = 0
    for ts, net in scen_iter:
        nscen += 1
        kids = ts.ch[1]
        W = {i: zterm(ts.subtree_work(i)) for i in kids}
        depth = {i: ts.depth(i) for i in kids}
        outcomes = set()

        def scenario(it):
            btc.install(it, STUBS)
            install_depth_stub(it, dt)
            ts.assume_ranges(it, 1 << 64)
            thr = it.fresh('thr', 'u32', 1, None)
            ub = ts.build_unstable(it, prog, thr, net)
            r = it.call('get_stable_child', [Ref(Cell(ub))])
            D = it.globals.get('D')
            if D is None:
                if kids:
                    raise Unsupported('depth bound was not evaluated')
                D = z3.IntVal(500)
            may, must = rule(ts, kids, thr.t, net, zterm(D), W, depth)
            if r.variant == 1:
                idx = r.fields[0].v.t
                if not isinstance(idx, int) or idx >= len(kids):
                    cands.add(kernel=kernel, role='index-out-of-range', ts=ts, net=net, model=it.model_ if it.feasible() else None)
                    return
                ci = kids[idx]
                outcomes.add('some')
                m = check_unsat(it, rep, z3.Not(may[ci]))
                if m is not None:
                    cands.add(kernel=kernel, role='advances-without-rule', ts=ts, net=net, model=m, chosen=ci, thr=thr.t)
                    return
                return ('some', ci)
            outcomes.add('none')
            if kids:
                m = check_unsat(it, rep, z3.Or(*[must[i] for i in kids]))
                if m is not None:
                    cands.add(kernel=kernel, role='does-not-advance-although-rule-holds', ts=ts, net=net, model=m, thr=thr.t)
            return ('none', None)

        explore(prog, scenario, stats=st, on_panic=lambda it, e: cands.add(
            kernel=kernel, role='trap', ts=ts, net=net, model=it.model_ if it.feasible() else None, msg=str(e), thr=z3.Int('thr')))
        if kids and 'none' in outcomes and ('some' in outcomes):
            rep.cov['witnesses'] += 1
        if nscen % 11 == 0:
            rep.sample(dict(kernel=kernel, scenario=ts.describe(), network=btc.NETS[net], outcomes=sorted(outcomes)))
    rep.add_stats(st, kernel)
    rep.cov['shapes'] += nscen
    return nscen


# ------------------------------------------------------------------------------------------- k3: pop
class CacheNative(Native):
    """the blocks cache (dyn BlocksCache): set of block ids; get returns an opaque Block carrying the id"""
    ty = 'BlocksCacheModel'

    def __init__(self, ids, net):
        self.ids = set(ids)
        self.net = net
        self.removed = []

    def mcall(self, it, trait, method, args):
        if method == 'remove':
            i = btc.bh_id(args[1])
            if i in self.ids:
                self.ids.discard(i)
                self.removed.append(i)
                return True
            return False
        if method == 'get':
            i = btc.bh_id(args[1])
            return some(Agg('Block', [Cell(SInt(i, 'u64'))])) if i in self.ids else none()
        if method == 'insert':
            i = btc.bh_id(args[1])
            if i in self.ids:
                return False
            self.ids.add(i)
            return True
        if method == 'network':
            return self.net
        raise Unsupported('BlocksCache::%s' % method)


def attach_cache(prog, ts, cache):
    cref = Ref(Cell(Agg('RefCell', [Cell(Ref(Cell(cache)))])))
    for i, cb in ts.blocks.items():
        H.get_field(prog, cb, 'CachedBlock', 'cache').v = cref


def tree_ids(prog, node):
    out = []
    st = [node]
    while st:
        x = st.pop()
        out.append(btc.block_id(H.get_field(prog, x, 'BlockTree', 'root').v))
        st.extend(c.v for c in H.get_field(prog, x, 'BlockTree', 'children').v.cells)
    return sorted(out)


def k_pop(prog, rep, cands, dt, scen_iter):
    st = Stats()
    n = 0
    for ts, net in scen_iter:
        n += 1
        kids = ts.ch[1]

        def scenario(it):
            btc.install(it, STUBS)
            install_depth_stub(it, dt)
            ts.assume_ranges(it, 1 << 64)
            thr = it.fresh('thr', 'u32', 1, None)
            ub = ts.build_unstable(it, prog, thr, net)
            cache = CacheNative(range(1, ts.n + 1), btc.network(prog, net))
            attach_cache(prog, ts, cache)
            removed_from_outpoints = []
            it.overrides['OutPointsCache::remove'] = lambda it_, k, r, a: (removed_from_outpoints.append(deref(a[1]).fields[0].v.t), UNIT)[1]
            it.overrides['NextBlockHeaders::remove_until_height'] = lambda it_, k, r, a: UNIT
            ubref = Ref(Cell(ub))
            served = btc.chain_ids(it.call('unstable_blocks::get_main_chain', [ubref]))
            peek = it.call('unstable_blocks::peek', [ubref])
            sh = it.fresh('stable_h', 'u32', 0, 1 << 31)
            r = it.call('unstable_blocks::pop', [ubref, sh])
            if (peek.variant == 1) != (r.variant == 1):
                cands.add(kernel='k3', role='peek-pop-disagree', ts=ts, net=net, model=it.model_ if it.feasible() else None, thr=thr.t)
                return
            tree = H.get_field(prog, ub, 'GenericUnstableBlocks', 'tree').v
            after = tree_ids(prog, tree)
            if r.variant == 0:
                if after != list(range(1, ts.n + 1)) or cache.removed:
                    cands.add(kernel='k3', role='tree-changed-without-pop', ts=ts, net=net, model=it.model_ if it.feasible() else None, thr=thr.t)
                return 'none'
            new_root = btc.block_id(H.get_field(prog, tree, 'BlockTree', 'root').v)
            popped = r.fields[0].v.fields[0].v.t
            sub = sorted(subtree(ts, new_root))
            gone = sorted(set(range(1, ts.n + 1)) - set(sub))
            problems = []
            if popped != 1:
                problems.append('returned-block-is-not-the-old-anchor')
            if new_root not in kids:
                problems.append('new-anchor-is-not-a-child')
            if after != sub:
                problems.append('kept-blocks-are-not-the-childs-subtree')
            if sorted(cache.removed) != gone or sorted(removed_from_outpoints) != gone:
                problems.append('discarded-set-wrong')
            if len(served) < 2 or served[1] != new_root:
                problems.append('new-anchor-not-on-served-chain')
            tdc = [c.v.t for c in H.get_field(prog, ub, 'GenericUnstableBlocks', 'tip_depths_cache').v.cells]
            exp_tips = sorted(len(ts.path(l)) - 1 for l in ts.leaves if l in sub)
            if sorted(tdc) != exp_tips:
                problems.append('tip-depths-cache')
            for p in problems:
                cands.add(kernel='k3', role=p, ts=ts, net=net, model=it.model_ if it.feasible() else None, chosen=new_root,
                          served=served, thr=thr.t)
            return 'some'

        explore(prog, scenario, stats=st, on_panic=lambda it, e: cands.add(
            kernel='k3', role='trap', ts=ts, net=net, model=it.model_ if it.feasible() else None, msg=str(e), thr=z3.Int('thr')))
    rep.add_stats(st, 'k3:pop')
    return n


def subtree(ts, i):
    out = [i]
    for c in ts.ch[i]:
        out.extend(subtree(ts, c))
    return out


# ------------------------------------------------------------------------------------------- k4: ingestion schedule
def k_ingest(prog, rep, cands, dt, shapes, rounds):
    """ingest_stable_blocks_into_utxoset with the UTXO ingestion replaced by a pausing stub"""
    st = Stats()
    for parents in shapes:
        ts = btc.TreeScenario(parents)
        net = 2

        def scenario(it):
            btc.install(it, STUBS)
            install_depth_stub(it, dt)
            ts.assume_ranges(it, 1 << 64)
            # difficulties small so that several blocks can stabilise; threshold symbolic
            thr = it.fresh('thr', 'u32', 1, 4)
            state, sh, _ = mk_state(it, prog, ts, net=net, thr=thr, sh=it.fresh('stable_h', 'u32', 0, 1 << 30),
                                    extra=dict(metrics=Agg('Metrics', [Cell(Opaque('m')) for _ in prog.src.find_adt(['Metrics']).fields])))
            ub = sfield(prog, state, 'unstable_blocks').v
            utx = sfield(prog, state, 'utxos').v
            cache = CacheNative(range(1, ts.n + 1), btc.network(prog, net))
            attach_cache(prog, ts, cache)
            it.overrides['OutPointsCache::remove'] = lambda it_, k, r, a: UNIT
            it.overrides['NextBlockHeaders::remove_until_height'] = lambda it_, k, r, a: UNIT
            store = []      # (height term, block id) in call order
            it.overrides['BlockHeaderStore::insert_block'] = lambda it_, k, r, a: (store.append((a[2].t, deref(a[1]).fields[0].v.t)), UNIT)[1]
            ing = {'cur': None, 'count': 0}
            nh_cell = H.get_field(prog, utx, 'UtxoSet', 'next_height')

            def finish():
                h = ing['cur']
                ing['cur'] = None
                nh_cell.v = SInt(nh_cell.v.t + 1, 'u32')
                return mk_variant_done(prog, tup(btc.bh(h), Opaque('stats')))

            def ingest_block(it_, k, r, a):
                if ing['cur'] is not None:
                    raise Panic('Cannot ingest new block while previous block is not fully ingested')
                ing['cur'] = a[1].fields[0].v.t
                if it_.choose(2, 'slice'):
                    return H.mk_variant(prog, 'Slicing', 'Paused', UNIT)
                return finish()

            def ingest_continue(it_, k, r, a):
                if ing['cur'] is None:
                    return none()
                if it_.choose(2, 'slice'):
                    return some(H.mk_variant(prog, 'Slicing', 'Paused', UNIT))
                return some(finish())
            it.overrides['UtxoSet::ingest_block'] = ingest_block
            it.overrides['UtxoSet::ingest_block_continue'] = ingest_continue
            sref = Ref(Cell(state))
            log = []
            for rnd in range(rounds):
                before_h = nh_cell.v.t
                r = it.call('state::ingest_stable_blocks_into_utxoset', [sref])
                paused = r.variant == H.variant_discr(prog, 'Slicing', 'Paused')
                log.append('P' if paused else 'D')
                if not paused and ing['cur'] is not None:
                    cands.add(kernel='k4', role='done-while-block-in-progress', ts=ts, net=net, model=it.model_ if it.feasible() else None)
                    return
            # heights recorded: consecutive from the initial stable height, each once; block ids follow one root path
            ids = [b for _, b in store]
            for k, (h, b) in enumerate(store):
                if not z3.is_true(z3.simplify(zterm(h) - zterm(sh.t) == k)):
                    cands.add(kernel='k4', role='stable-heights-not-consecutive', ts=ts, net=net,
                              model=it.model_ if it.feasible() else None, store=str(store))
                    return
            if ids and (ids[0] != 1 or any(ts.par.get(ids[k + 1]) != ids[k] for k in range(len(ids) - 1))):
                cands.add(kernel='k4', role='stable-blocks-not-a-chain', ts=ts, net=net, model=it.model_ if it.feasible() else None, store=str(store))
            return ''.join(log), len(store)

        res = explore(prog, scenario, stats=st, on_panic=lambda it, e: cands.add(
            kernel='k4', role='trap', ts=ts, net=net, model=it.model_ if it.feasible() else None, msg=str(e)))
        if any(r and 'P' in r[0] and r[1] >= 2 for r in res):
            rep.cov['witnesses'] += 1
    rep.add_stats(st, 'k4:ingest_stable_blocks')


def mk_variant_done(prog, v):
    return H.mk_variant(prog, 'Slicing', 'Done', v)


# ------------------------------------------------------------------------------------------- native confirmation
def native_tail_ops(ts, diffs, thr, net):
    ops = [dict(op='init', network=net, threshold=thr, anchor=dict(id=1, difficulty=str(diffs[1])))]
    for k, p in enumerate(ts.parents):
        i = k + 2
        ops.append(dict(op='push', id=i, parent=p, difficulty=str(diffs.get(i, 1))))
    return ops


def make_ts(desc):
    if desc[0] == 'tree':
        return btc.TreeScenario(list(desc[1]))
    return TailedTree(list(desc[1]), {int(k): v for k, v in dict(desc[2]).items()})


def confirm(cand, known):
    ts = make_ts(cand['shape'])
    diffs = {i: 1 for i in ts.d}
    diffs.update({int(k): v for k, v in cand['diffs'].items()})
    thr = cand.get('thr') if isinstance(cand.get('thr'), int) else 2
    netname = btc.NETS[cand['net']].lower()
    ops = native_tail_ops(ts, diffs, thr, netname)
    ops += [dict(op='main_chain'), dict(op='tree'), dict(op='ingest'), dict(op='tree'), dict(op='main_chain')]
    res = C.run_native([dict(ops=ops)], tag='c03cx')[0]
    mc0, tree0, ing, tree1, mc1 = res[-5:]
    summary = dict(shape=cand['shape'], difficulty={k: v for k, v in sorted(cand['diffs'].items())}, threshold=thr, network=netname)
    doc = dict(property=PROP, role=cand['role'], summary=summary, msg=cand.get('msg'),
               native=dict(main_chain_before=mc0, ingest=ing, tree_after=tree1, main_chain_after=mc1),
               scenario=dict(ops=ops) if len(ops) < 60 else 'omitted (%d ops); regenerate from summary' % len(ops))
    kids = ts.ch[1]
    W = {i: conc_work(ts, i, diffs) for i in kids}
    T = diffs[1] * thr
    advanced = isinstance(tree1, dict) and tree1.get('stable_height', 0) >= 1
    problems = []
    role = cand['role']
    if role == 'new-anchor-not-on-served-chain':
        if advanced and isinstance(mc0, dict) and len(mc0['chain']) > 1:
            first_new = ts.path(tree1['blocks'][0])[1]
            if first_new != mc0['chain'][1]:
                problems.append('anchor advanced to block %s, but the chain being served was %s...' % (first_new, mc0['chain'][:4]))
    elif role == 'does-not-advance-although-rule-holds':
        ok_diff = [i for i in kids if W[i] >= T and all(W[i] - W[j] >= T for j in kids if j != i)]
        if ok_diff and not advanced:
            problems.append('child %s satisfies the difficulty rule but the anchor did not advance' % ok_diff)
        elif not ok_diff and not advanced:
            problems.append('escape clause holds by the statement but the anchor did not advance (judge from summary)')
    elif role == 'advances-without-rule':
        if advanced:
            i = ts.path(tree1['blocks'][0])[1]
            okd = W[i] >= T and all(W[i] - W[j] >= T for j in kids if j != i)
            if not okd:
                problems.append('anchor advanced to %s without the difficulty rule%s' % (i, '' if cand['net'] == 0 else ' and outside the escape clause'))
    elif role == 'trap':
        if any(isinstance(x, dict) and 'trap' in x for x in res):
            problems.append('native trap: %s' % [x for x in res if isinstance(x, dict) and 'trap' in x][:1])
    else:
        doc['note'] = 'role %s has no native judge' % role
    doc['problems'] = problems
    if not problems:
        return 'not-reproduced', doc
    for k in known:
        if k.get('role_key') == role and known_matches(k, ts, cand, W):
            return 'known:' + k['id'], doc
    return 'violation', doc


def known_matches(k, ts, cand, W):
    if k['id'] == 'C03-escape-tie-anchor-off-served-chain':
        # listed defect: testnet/regtest only, and at least two children tie for the greatest accumulated difficulty
        ws = sorted(W.values())
        return cand['net'] != 0 and len(ws) >= 2 and ws[-1] == ws[-2]
    return False


def conc_work(ts, i, diffs):
    best = 0
    st = [(i, diffs.get(i, 1))]
    while st:
        x, w = st.pop()
        if not ts.ch[x]:
            best = max(best, w)
        for c in ts.ch[x]:
            st.append((c, w + diffs.get(c, 1)))
    return best


# ------------------------------------------------------------------------------------------- translator validation
def translator_validation(prog, rep, dt, count):
    r = C.rng()
    scen, expect = [], []
    for k in range(count):
        ts, diffs = random_tree(r, 2, 7)
        thr = r.choice([1, 1, 2, 3, 5])
        net = r.choice([0, 1, 2])
        concretize_ts(ts, diffs)
        it = Interp(prog)
        btc.install(it, STUBS)
        install_depth_stub(it, dt)
        ub = ts.build_unstable(it, prog, SInt(thr, 'u32'), net)
        res = it.call('get_stable_child', [Ref(Cell(ub))])
        exp = ts.ch[1][res.fields[0].v.t] if res.variant == 1 else None
        expect.append((exp, ts, diffs, thr, net))
        ops = native_ops(ts, diffs, thr=thr, net=btc.NETS[net].lower(), coinbase=False)
        ops += [dict(op='ingest'), dict(op='tree')]
        scen.append(dict(ops=ops))
    res = C.run_native(scen, tag='c03tv')
    for (exp, ts, diffs, thr, net), rr in zip(expect, res):
        tree = rr[-1]
        # native: after one ingestion call the anchor advanced (possibly several times) iff a stable child existed
        advanced = tree.get('stable_height', 0) >= 1
        first_new = None
        if advanced:
            # the first new anchor is the ancestor at height 1 of the remaining root
            root = tree['blocks'][0]
            p = ts.path(root)
            first_new = p[1]
        if (exp is not None) != advanced or (exp is not None and exp != first_new):
            rep.inconclusive = 'translator-mismatch get_stable_child parents=%s diffs=%s thr=%s net=%s mir=%s native=%s' % (
                ts.parents, diffs, thr, net, exp, tree)
        else:
            rep.cov['traces_validated_against_impl'] += 1


# ------------------------------------------------------------------------------------------- main
def small_scenarios(N):
    for parents in shapes_upto(N):
        for net in (0, 1, 2):
            yield btc.TreeScenario(parents), net


def tailed_scenarios(tier):
    """skeletons with long tails: total >= 1500 (bound = min(threshold, 499)) and chains around the bound"""
    out = []
    big = 1500
    skels = [([1], {2: big}), ([1, 1], {2: big}), ([1, 1], {3: big}), ([1, 1], {2: big, 3: 3}), ([1, 1, 2], {4: big}),
             ([1, 1, 3], {4: big}), ([1, 1, 2], {3: big})]
    if tier == 'thorough':
        skels += [([1, 1, 1], {2: big}), ([1, 1, 1], {4: big, 2: 2}), ([1, 1, 2, 3], {5: big}), ([1, 1, 2, 3], {4: big, 5: 4}),
                  ([1, 2, 2], {3: big}), ([1, 1], {2: 700, 3: 200}), ([1, 1], {2: 499, 3: 1}), ([1], {2: 498}), ([1], {2: 499}),
                  ([1], {2: 500})]
    else:
        skels += [([1], {2: 498}), ([1], {2: 499}), ([1, 1], {2: 600, 3: 90})]
    # two children able to tie in accumulated difficulty while differing in depth and in heaviest-chain length
    skels += [([1, 1, 2, 4, 3, 3], {7: big})]
    for parents, tails in skels:
        for net in (1, 2) if tier == 'thorough' else (2,):
            out.append((TailedTree(parents, tails), net))
        if tier == 'thorough' or len(tails) == 1 and parents == [1, 1]:
            out.append((TailedTree(parents, tails), 0))
    return out


PROG = None
DT = None
ROUNDS = 3


def worker(job):
    kind, desc, net = job
    rep = H.Report(PROP, 'quick')
    cands = Cands()
    ts = make_ts(desc)
    if kind == 'k1':
        k_stable_child(PROG, rep, cands, DT, iter([(ts, net)]), 'k1:get_stable_child')
    elif kind == 'k2':
        k_stable_child(PROG, rep, cands, DT, iter([(ts, net)]), 'k2:get_stable_child-tailed')
    elif kind == 'k3':
        k_pop(PROG, rep, cands, DT, iter([(ts, net)]))
    elif kind == 'k4':
        k_ingest(PROG, rep, cands, DT, [ts.parents], ROUNDS)
    return (rep.cov, cands.items, rep.inconclusive)


def main():
    global PROG, DT, ROUNDS
    tier = C.tier()
    rep = H.Report(PROP, tier)
    N = 5 if tier == 'quick' else 6
    ROUNDS = 3 if tier == 'quick' else 4
    prog = PROG = H.load_program(['canister'])
    btc.load_dep_decls(prog)
    dt = DT = DepthTable()
    tailed = tailed_scenarios(tier)
    dt.need(sorted(set(list(range(1, 9)) + [t.n for t, _ in tailed])))
    rep.cov['bounds'] = dict(tree_blocks=N, networks='mainnet, testnet, regtest', difficulty='symbolic in [1, 2^64)',
                             threshold='symbolic u32 >= 1', tailed='skeletons <= 7 blocks + bare chains up to 1500 blocks (difficulty 1)',
                             ingest_rounds=ROUNDS,
                             outside='threshold 0; difficulty x threshold >= 2^128 (u128 overflow traps in dev builds); trees beyond the bound; '
                                     'mid-history set_config is covered as one step from an arbitrary tree with an arbitrary threshold')
    rep.cov['mir'] = prog.info
    rep.cov['functions_encoded'] = ['unstable_blocks::get_stable_child', 'unstable_blocks::{peek,pop,blocks_count,get_main_chain}',
                                    'GenericUnstableBlocks::{normalized_stability_threshold,anchor_difficulty,stability_threshold,get_network,refresh_tip_depths_cache}',
                                    'BlockTree::{difficulty_based_depth,depth,children,blocks_count,remove_child,blocks,tip_depths,into_root_and_remove_from_cache,remove_from_cache}',
                                    'Depth::{saturating_sub,new,get}', 'DifficultyBasedDepth::{new,sub}', 'CachedBlock::block',
                                    'state::ingest_stable_blocks_into_utxoset (+pop_block)']
    rep.cov['stubs'] = btc.stub_docs(STUBS) + [
        'testnet_unstable_max_depth_difference(n, t) -> table of the real f64 function evaluated natively for the scenario block count n and t = 0..500 (ite over symbolic t)',
        'dyn BlocksCache -> set of block ids', 'OutPointsCache::remove, NextBlockHeaders::remove_until_height -> recorders',
        'UtxoSet::ingest_block / ingest_block_continue -> nondeterministic Paused/Done state machine (k4)',
        'BlockHeaderStore::insert_block -> recorder']
    rep.assumptions = ['runner-up in the testnet/regtest clause = second child by accumulated difficulty (the reading the code documents); ties accepted in either reading',
                       'std models faithful; block hash = injective id', 'tail blocks have difficulty 1 (concrete)']
    jobs = []
    for parents in shapes_upto(N):
        for net in (0, 1, 2):
            jobs.append(('k1', ('tree', parents), net))
    pop_tailed = 0
    for t, net in tailed:
        jobs.append(('k2', t.descriptor(), net))
        # pop walks the discarded tree through nested boxed iterators (quadratic in the tail length): the quick tier
        # runs it on the tie skeleton and on the two simplest tailed shapes only
        if tier == 'thorough' or (net == 2 and t.descriptor()[1:] in (([1, 1, 2, 4, 3, 3], {7: 1500}), ([1, 1], {2: 1500}), ([1], {2: 499}))):
            jobs.append(('k3', t.descriptor(), net))
            pop_tailed += 1
    for parents in shapes_upto(min(N, 5)):
        for net in (0, 1, 2):
            jobs.append(('k3', ('tree', parents), net))
    for parents in list(shapes_upto(4)) + [[1, 2, 3, 4], [1, 2, 3, 3], [1, 2, 2, 3, 4]]:
        jobs.append(('k4', ('tree', parents), 2))
    # long jobs first
    jobs.sort(key=lambda j: -(len(j[1][1]) + sum(dict(j[1][2]).values()) if j[1][0] == 'tailed' else len(j[1][1])))
    cands = Cands()
    for part in parallel(jobs, worker):
        merge_partial(rep, cands, part)
    rep.cov['jobs'] = len(jobs)
    translator_validation(prog, rep, dt, 60 if tier == 'quick' else 250)
    settle(rep, PROP, cands, confirm, H.load_known(PROP), describe=lambda d: '%s %s' % (d.get('problems'), d.get('summary')))
    return rep.finish()


if __name__ == '__main__':
    C.run_check(main)
