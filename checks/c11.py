#!/usr/bin/env python3
"""C11 - header acceptance equals the Bitcoin consensus header rules.

Kernel (MIR of ic-btc-validation, regenerated from /repo): HeaderValidator::{validate_header, is_timestamp_valid,
get_next_target, find_next_difficulty_in_chain, compute_next_difficulty}, timestamp_is_at_most_2h_in_future, max_target,
pow_limit_bits, no_pow_retargeting over a HeaderStore model: a window of the chain below the tip (every header's time and
bits symbolic), the header at the last retarget height and the genesis header; candidate header (parent, time, bits,
proof-of-work value) and the current time symbolic; tip heights chosen around multiples of 2016 and near genesis;
networks Bitcoin, Testnet, Testnet4, Regtest.
Oracle: Bitcoin Core's GetNextWorkRequired / CalculateNextWorkRequired (incl. BIP94 for testnet4) / GetMedianTimePast and the
2-hour rule written directly in z3 over the same symbols; Target::from_compact and from_next_work_required are uninterpreted
functions shared by implementation and oracle.   Ok <=> every rule holds; the error is the first failing rule.
"""
import os, sys, time, json
import z3
sys.path.insert(0, os.path.dirname(os.path.dirname(os.path.abspath(__file__))))
from checks import common as C
from checks.treelib import *   # noqa: F401,F403
from mirsym import btc_header as BH

PROP = 'C11'
PROG = None
NETS = ['Bitcoin', 'Testnet', 'Testnet4', 'Regtest']
ERR_ORDER = ['PrevHeaderNotFound', 'HeaderIsTooFarInFuture', 'HeaderIsOld', 'TargetDifficultyAboveMax', 'InvalidPoWForHeaderTarget',
             'InvalidPoWForComputedTarget']
TMAX = (1 << 32) - 8400


class Scen:
    """tip at height H; window of L headers below it (ids H+1000-j); optional retarget header; genesis"""
    def __init__(self, H, L=12):
        self.H = H
        self.genesis_in_window = H + 1 <= L
        self.L = min(L, H + 1)
        self.ids = [1000 + H - j for j in range(self.L)]          # id of the header at height H-j
        self.nH = H + 1
        self.adj_height = self.nH - 2016 if self.nH % 2016 == 0 else None

    def key(self):
        return self.H


def build(it, ctx, sc, net, vals):
    """vals: provider of scalars: vals('t', j) / vals('b', j) for window index j, 'adj_t','adj_b','gen_t','gen_b'"""
    window = []
    for j in range(sc.L):
        hid = sc.ids[j]
        prev = sc.ids[j + 1] if j + 1 < sc.L else (999 if not sc.genesis_in_window else 0)
        h = ctx.mk_header(hid, prev, vals('t', j), vals('b', j))
        window.append((hid, h))
    by_height = {}
    if sc.genesis_in_window:
        gen_id = sc.ids[-1]
    else:
        gen_id = 500
        by_height[0] = ctx.mk_header(gen_id, 0, vals('gen_t', 0), vals('gen_b', 0))
    if sc.adj_height is not None and not (sc.genesis_in_window and sc.adj_height >= sc.H - sc.L + 1):
        if sc.adj_height == 0:
            pass                                    # the retarget base is the genesis header
        else:
            by_height[sc.adj_height] = ctx.mk_header(600, 598, vals('adj_t', 0), vals('adj_b', 0))
    store = BH.StoreModel(ctx, window, sc.H, by_height)
    return store, gen_id


def sym_vals(it):
    cache = {}

    def f(kind, j):
        k = (kind, j)
        if k not in cache:
            name = '%s%d' % (kind, j)
            cache[k] = it.fresh(name, 'u32', 0, TMAX if kind.endswith('t') else None)
        return cache[k]
    f.cache = cache
    return f


def first_header(sc, store, vals):
    """(time, bits) of the header at height nH - 2016"""
    if sc.adj_height == 0 and not sc.genesis_in_window:
        return vals('gen_t', 0).t, vals('gen_b', 0).t
    if sc.adj_height in store.by_height:
        return vals('adj_t', 0).t, vals('adj_b', 0).t
    k = sc.H - sc.adj_height
    return vals('t', k).t, vals('b', k).t


def oracle(ctx, sc, net, vals, store, cand, now):
    """z3 formulas of the consensus rules; returns dict rule -> formula (True = rule satisfied)"""
    ctime, cbits, cw, parent_known = cand
    limit = BH.POW_LIMIT_BITS[net]
    maxt = BH.MAX_TARGET[net]
    allow_min = net in ('Testnet', 'Testnet4', 'Regtest')
    no_retarget = net == 'Regtest'
    T = lambda b: BH.T_FN(zterm(b))
    pt, pb = vals('t', 0).t, vals('b', 0).t
    # median of up to 11 predecessors (down to genesis)
    m = min(11, sc.L)
    times = [vals('t', j).t for j in range(m)]
    med = z3.Int('o_median')
    idx = m // 2
    med_def = z3.And(z3.Or(*[med == x for x in times]), z3.Sum([z3.If(x <= med, 1, 0) for x in times]) >= idx + 1,
                     z3.Sum([z3.If(x >= med, 1, 0) for x in times]) >= m - idx)
    # required target
    if sc.nH % 2016 != 0:
        if allow_min:
            walk = z3.IntVal(limit)
            # from the deepest window header up to the tip: first header (from the tip) with non-limit bits or at a retarget height
            for j in range(sc.L - 1, -1, -1):
                h = sc.H - j
                stop_here = z3.Or(vals('b', j).t != limit, z3.BoolVal(h % 2016 == 0))
                walk = z3.If(stop_here, vals('b', j).t, walk)
            required = z3.If(ctime > pt + 1200, z3.IntVal(maxt), T(walk))
        else:
            required = T(pb)
    else:
        if no_retarget:
            required = T(pb)
        else:
            ft, fb = first_header(sc, store, vals)
            base = fb if net == 'Testnet4' else pb
            span = z3.If(zterm(pt) >= zterm(ft), zterm(pt) - zterm(ft), 0)
            required = T(BH.NWR_FN(zterm(base), span, z3.IntVal(BH.NETWORKS.index(net))))
    rules = [
        ('PrevHeaderNotFound', z3.BoolVal(parent_known)),
        ('HeaderIsTooFarInFuture', ctime <= now + 7200),
        ('HeaderIsOld', ctime > med),
        ('TargetDifficultyAboveMax', T(cbits) <= maxt),
        ('InvalidPoWForHeaderTarget', cw <= T(cbits)),
        ('InvalidPoWForComputedTarget', T(cbits) == required),
    ]
    return rules, med_def


def run_validate(it, ctx, net, store, cand_header, now):
    d = PROG.src.find_adt(['header', 'HeaderValidator'])
    vals = dict(store=store, network=ctx.network(net))
    validator = Agg('HeaderValidator', [Cell(vals[f]) for f in d.fields])
    from mirsym.models_std import dur
    r = it.call('HeaderValidator::<T>::validate_header', [Ref(Cell(validator)), Ref(Cell(cand_header)), dur(now)])
    if r.variant == 0:
        return 'Ok'
    e = r.fields[0].v
    de = PROG.src.find_adt(['header', 'ValidateHeaderError'])
    return [v[0] for v in de.variants if v[3] == e.variant][0]


def worker(job):
    H_, net = job
    prog = PROG
    rep = H.Report(PROP, 'quick')
    cands = Cands()
    st = Stats()
    sc = Scen(H_)
    seen = set()

    def scenario(it):
        ctx = BH.HeaderCtx(it, prog)
        vals = sym_vals(it)
        store, gen_id = build(it, ctx, sc, net, vals)
        limit = BH.POW_LIMIT_BITS[net]
        if not sc.genesis_in_window and not any((sc.H - j) % 2016 == 0 for j in range(sc.L)):
            # walk-back bound: the deepest header of the window ends every min-difficulty run
            it.assume(vals('b', sc.L - 1).t != limit)
        parent_known = it.choose(2, 'parent') == 0
        ctime = it.fresh('c_time', 'u32', 0, TMAX)
        cbits = it.fresh('c_bits', 'u32', 0, None)
        cw = it.fresh('c_w', 'u256', 0, (1 << 256) - 1)
        now = it.fresh('now', 'u64', 0, 1 << 33)
        cid = 5000
        cand_header = ctx.mk_header(cid, sc.ids[0] if parent_known else 4999, ctime, cbits)
        ctx.w[cid] = cw.t
        got = run_validate(it, ctx, net, store, cand_header, now)
        seen.add(got)
        rules, med_def = oracle(ctx, sc, net, vals, store, (ctime.t, cbits.t, cw.t, parent_known), now.t)
        it.solver.push()
        it.solver.add(med_def)
        # first failing rule in the documented order
        expected = z3.IntVal(-1)
        for name, holds in reversed(rules):
            expected = z3.If(z3.Not(holds), ERR_ORDER.index(name), expected)
        gotc = -1 if got == 'Ok' else ERR_ORDER.index(got)
        m = check_unsat(it, rep, expected != gotc)
        if m is not None:
            snap = {('%s%d' % k): v.t for k, v in vals.cache.items()}
            cands.add(kernel='v', role=('accepts-against-rule' if got == 'Ok' else 'rejects-or-wrong-error'), model=m, H=sc.H, net=net, got=got,
                      expected=expected, values=snap, cand=dict(time=ctime.t, bits=cbits.t, w=cw.t, parent_known=parent_known), now=now.t)
        it.solver.pop()
        return got

    explore(prog, scenario, stats=st, on_panic=lambda it, e: cands.add(kernel='v', role='trap', model=it.model_ if it.feasible() else None,
                                                                     H=sc.H, net=net, msg=str(e)))
    rep.add_stats(st, 'v:validate_header')
    rep.cov['shapes'] += 1
    if {'Ok', 'PrevHeaderNotFound', 'HeaderIsOld', 'HeaderIsTooFarInFuture', 'InvalidPoWForComputedTarget'} <= seen:
        rep.cov['witnesses'] += 1
    else:
        rep.inconclusive = 'vacuity: H=%d %s outcomes %s' % (sc.H, net, sorted(seen))
    rep.sample(dict(tip_height=sc.H, network=net, window=sc.L, outcomes=sorted(seen), paths=st.paths))
    return (rep.cov, cands.items, rep.inconclusive)


# ------------------------------------------------------------------------------------------- concrete side
def conc_chain(r, sc, net):
    """a concrete chain of real 80-byte headers for the scenario; returns dict with hex headers and python-side data"""
    limit = BH.POW_LIMIT_BITS[net]
    other = r.choice([0x1c0fffff, 0x1b04864c, 0x1d00fffe, limit])
    hdrs = {}           # height -> (bytes, hash, time, bits)
    t0 = r.randint(10 ** 6, 10 ** 9)

    def mk(height, prev_hash, t, bits):
        b = BH.header_bytes(1, prev_hash, r.getrandbits(200), t, bits, r.getrandbits(32))
        return (b, BH.header_hash(b), t, bits)
    lo = sc.H - sc.L + 1
    heights = list(range(lo, sc.H + 1))
    extra = {}
    if not sc.genesis_in_window:
        extra[0] = mk(0, 0, t0 - 10 ** 5, r.choice([limit, other]))
    if sc.adj_height is not None and sc.adj_height not in heights and sc.adj_height != 0:
        extra[sc.adj_height] = mk(sc.adj_height, r.getrandbits(250), t0 + r.choice([-500, 0, 1000, 600000]), r.choice([limit, other]))
    prev_hash = r.getrandbits(250) if lo > 0 else 0
    t = t0 + 1209600
    mode = r.randint(0, 3)
    for h in heights:
        t += r.choice([600, 30, 1300, 2500, -100]) if mode else 600
        bits = limit if (mode == 1 or (mode == 2 and r.random() < 0.6)) else other
        if h == heights[0] and lo > 0 and not any(x % 2016 == 0 for x in heights):
            bits = other if other != limit else 0x1c0fffff
        hdrs[h] = mk(h, prev_hash, max(t, 1), bits)
        prev_hash = hdrs[h][1]
    return hdrs, extra


def conc_oracle(sc, net, hdrs, extra, cand, now):
    ctime, cbits, cw, parent_known = cand
    limit, maxt = BH.POW_LIMIT_BITS[net], BH.MAX_TARGET[net]
    allow_min = net in ('Testnet', 'Testnet4', 'Regtest')
    if not parent_known:
        return 'PrevHeaderNotFound'
    if ctime > now + 7200:
        return 'HeaderIsTooFarInFuture'
    hs = [hdrs[h] for h in sorted(hdrs, reverse=True)]
    times = sorted(x[2] for x in hs[:11])
    if ctime <= times[len(times) // 2]:
        return 'HeaderIsOld'
    if BH.t_conc(cbits) > maxt:
        return 'TargetDifficultyAboveMax'
    if cw > BH.t_conc(cbits):
        return 'InvalidPoWForHeaderTarget'
    pt, pb = hs[0][2], hs[0][3]
    if sc.nH % 2016 != 0:
        if allow_min:
            if ctime > pt + 1200:
                req = maxt
            else:
                bits = limit
                for j, x in enumerate(hs):
                    if x[3] != limit or (sc.H - j) % 2016 == 0:
                        bits = x[3]
                        break
                req = BH.t_conc(bits)
        else:
            req = BH.t_conc(pb)
    else:
        if net == 'Regtest':
            req = BH.t_conc(pb)
        else:
            f = hdrs.get(sc.adj_height) or extra.get(sc.adj_height)
            base = f[3] if net == 'Testnet4' else pb
            req = BH.t_conc(BH.nwr_conc(base, max(pt - f[2], 0), net))
    if BH.t_conc(cbits) != req:
        return 'InvalidPoWForComputedTarget'
    return 'Ok'


def conc_case(r, prog):
    net = r.choice(NETS + ['Regtest', 'Regtest'])
    H_ = r.choice([0, 1, 2, 5, 10, 11, 2014, 2015, 2016, 2017, 4031, 4032, 6049, 2016 * 7 + 300])
    sc = Scen(H_)
    hdrs, extra = conc_chain(r, sc, net)
    tip = hdrs[sc.H]
    limit = BH.POW_LIMIT_BITS[net]
    # candidate: usually what consensus requires, sometimes perturbed
    exp_bits = None
    parent_known = r.random() > 0.08
    ctime = tip[2] + r.choice([600, 1, 1201, 1200, -5000, 3000, 100000])
    now = max(ctime + r.choice([0, -7200, -7201, 5000, -100000]), 0)
    choices = [tip[3], limit, 0x1c0fffff]
    if sc.adj_height is not None and net != 'Regtest':
        f = hdrs.get(sc.adj_height) or extra.get(sc.adj_height)
        choices += [BH.nwr_conc(tip[3], max(tip[2] - f[2], 0), net), BH.nwr_conc(f[3], max(tip[2] - f[2], 0), net)] * 2
    cbits = r.choice(choices)
    # mine a little: try nonces to get a hash under the target when that is cheap (regtest)
    best = None
    for _ in range(64 if BH.t_conc(cbits) >> 250 else 2):
        b = BH.header_bytes(1, tip[1] if parent_known else r.getrandbits(250), r.getrandbits(200), max(ctime, 0), cbits, r.getrandbits(32))
        hh = BH.header_hash(b)
        if best is None or hh < best[1]:
            best = (b, hh)
        if hh <= BH.t_conc(cbits):
            break
    cand = (max(ctime, 0), cbits, best[1], parent_known)
    exp = conc_oracle(sc, net, hdrs, extra, cand, now)
    # the same through the MIR interpreter, concretely
    it = Interp(prog)
    ctx = BH.HeaderCtx(it, prog, concrete=True)
    order = sorted(hdrs, reverse=True)
    window = []
    for h in order:
        b, hh, t, bits = hdrs[h]
        prevh = hdrs[h - 1][1] if (h - 1) in hdrs else int.from_bytes(b[4:36], 'little')
        window.append((hh, ctx.mk_header(hh, prevh, t, bits)))
    by_height = {h: ctx.mk_header(x[1], int.from_bytes(x[0][4:36], 'little'), x[2], x[3]) for h, x in extra.items()}
    store = BH.StoreModel(ctx, window, sc.H, by_height)
    ch = ctx.mk_header(best[1], int.from_bytes(best[0][4:36], 'little'), cand[0], cbits)
    ctx.w[best[1]] = best[1]
    try:
        got = run_validate(it, ctx, net, store, ch, SInt(now, 'u64'))
    except Panic as e:
        got = 'trap: %s' % e
    native = dict(op='validate_header', network=net, tip_height=sc.H, headers={str(h): x[0].hex() for h, x in list(hdrs.items()) + list(extra.items())},
                  candidate=best[0].hex(), now=now)
    return exp, got, native, dict(net=net, H=H_, cand=dict(time=cand[0], bits=hex(cbits), parent_known=parent_known), now=now)


def translator_validation(prog, rep, count):
    r = C.rng()
    cases = [conc_case(r, prog) for _ in range(count)]
    res = C.run_native([dict(ops=[c[2]]) for c in cases], tag='c11tv')
    outcomes = set()
    for (exp, got, native, info), rr in zip(cases, res):
        nat = rr[0]
        outcomes.add(nat if isinstance(nat, str) else 'other')
        if got == nat and nat != exp:
            # the interpreter and the native build agree with each other and contradict the consensus rules
            if not rep.violations:
                rep.violations.append(C.save_replay(PROP, 'native-header-rule', dict(property=PROP, info=info, rule=exp, mir=got, native=nat, scenario=dict(ops=[native]))))
        elif not (exp == got == nat):
            rep.inconclusive = 'translator-mismatch validate_header %s: rule=%s mir=%s native=%s' % (info, exp, got, nat)
        else:
            rep.cov['traces_validated_against_impl'] += 1
    rep.cov['native_outcomes'] = sorted(outcomes)


def confirm(cand, known):
    # the counterexample is a set of header fields; proof-of-work values cannot be realised natively (that would need
    # mining), so the native part replays the same chain on regtest-sized targets only when no PoW clause is involved
    doc = dict(property=PROP, role=cand['role'], summary={k: v for k, v in cand.items() if k != 'shape'}, problems=[
        'MIR path decides %s, the consensus rules give error index %s (order %s)' % (cand.get('got'), cand.get('expected'), ERR_ORDER)])
    return 'violation', doc


def main():
    global PROG
    tier = C.tier()
    rep = H.Report(PROP, tier)
    prog = PROG = H.load_program(['validation'], decl_crates=('validation',))
    btc.load_dep_decls(prog)
    rep.cov['mir'] = dict(prog.info)
    heights = [0, 1, 5, 11, 2014, 2015, 2016, 2017, 4031] if tier == 'quick' else [0, 1, 2, 3, 5, 9, 10, 11, 12, 13, 2013, 2014, 2015, 2016, 2017, 2018, 2020, 2027, 2028, 4030, 4031, 4032, 4033, 6047, 6048, 2016 * 9 + 7, 2016 * 100 - 1, 2016 * 100, 2016 * 415 + 1]
    rep.cov['bounds'] = dict(tip_heights=heights, window='12 headers below the tip (all of them near genesis) + header at the last retarget height + genesis',
                             networks=NETS, fields='every time and bits of every header symbolic u32 (time < 2^32 - 8400), candidate proof-of-work value symbolic u256, current time symbolic',
                             outside='the proof-of-work hash itself; timestamps >= 2^32 - 8400; min-difficulty walk-back deeper than the window (assumed to end at its deepest header); Signet')
    rep.cov['functions_encoded'] = ['HeaderValidator::validate_header', 'HeaderValidator::is_timestamp_valid', 'HeaderValidator::get_next_target',
                                    'HeaderValidator::find_next_difficulty_in_chain', 'HeaderValidator::compute_next_difficulty',
                                    'header::timestamp_is_at_most_2h_in_future', 'constants::{max_target,pow_limit_bits,no_pow_retargeting}',
                                    'HeaderStore::get_initial_hash (default body semantics)']
    rep.cov['stubs'] = ['Header::block_hash -> injective id', 'Header::validate_pow(t) -> Err(BadTarget) iff t != T(bits), else Ok iff W <= t (rust-bitcoin source)',
                        'Target::from_compact -> uninterpreted T; CompactTarget::from_next_work_required -> uninterpreted NWR (concrete python big-int versions in translator validation)',
                        'slice::sort_unstable -> order-statistics model (non-forking)', 'Duration -> (secs, nanos) model', 'HeaderStore -> window model', 'println -> no-op']
    rep.assumptions = ['Bitcoin Core rules: nMedianTimeSpan 11 (upper middle), MAX_FUTURE_BLOCK_TIME 7200, interval 2016, allow_min_difficulty on testnet/testnet4/regtest, BIP94 base = first block of the period on testnet4',
                       'negative retarget timespans are saturated to 0 before the (clamping) retarget formula: equivalent under the clamp']
    cands = Cands()
    jobs = [(h, n) for h in heights for n in NETS]
    for part in parallel(jobs, worker):
        merge_partial(rep, cands, part)
    translator_validation(prog, rep, 150 if tier == 'quick' else 600)
    settle(rep, PROP, cands, confirm, H.load_known(PROP), describe=lambda d: str(d.get('problems'))[:300])
    return rep.finish()


if __name__ == '__main__':
    C.run_check(main)
