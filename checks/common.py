"""Helpers shared by the per-property checks: native replay invocation, tier handling, counterexample handling."""
import json, os, subprocess, sys, time, random

sys.path.insert(0, os.path.dirname(os.path.dirname(os.path.abspath(__file__))))
from mirsym import harness as H   # noqa: E402
from mirsym.interp import Unsupported  # noqa: E402

REPLAY_DIR = os.path.join(H.VERIF, 'replay')
REPLAY_TARGET = os.path.join(H.BUILD, 'replay')


def tier():
    t = os.environ.get('VERIF_TIER', 'quick')
    for i, a in enumerate(sys.argv):
        if a == '--tier' and i + 1 < len(sys.argv):
            t = sys.argv[i + 1]
    return t if t in ('quick', 'thorough') else 'quick'


def seed():
    try:
        return int(os.environ.get('VERIF_SEED', '0') or 0)
    except ValueError:
        return 0


_built = {}


def build_replay(profile='release'):
    """(re)build the native replay binary against /repo's current working tree"""
    if profile in _built:
        return _built[profile]
    env = dict(os.environ, CARGO_NET_OFFLINE='true', RUSTFLAGS='--cfg dfinity_bitcoin_canister_verif')
    lock = os.path.join(REPLAY_DIR, 'Cargo.lock')
    if not os.path.exists(lock):
        import shutil
        shutil.copy(os.path.join(H.REPO, 'Cargo.lock'), lock)
    cmd = ['cargo', 'build', '--offline', '--target-dir', REPLAY_TARGET]
    if profile == 'release':
        cmd.append('--release')
    import fcntl
    os.makedirs(H.BUILD, exist_ok=True)
    with open(os.path.join(H.BUILD, 'replay.lock'), 'w') as lk:
        fcntl.flock(lk, fcntl.LOCK_EX)
        p = subprocess.run(cmd, cwd=REPLAY_DIR, env=env, stdout=subprocess.PIPE, stderr=subprocess.STDOUT)
    if p.returncode != 0:
        sys.stderr.write(p.stdout.decode()[-4000:])
        raise Unsupported('native replay crate does not build against the current tree')
    b = os.path.join(REPLAY_TARGET, 'release' if profile == 'release' else 'debug', 'verif-replay')
    _built[profile] = b
    return b


def run_native(scenarios, profile='release', tag='x'):
    """run scenarios natively; returns list of per-scenario result lists"""
    b = build_replay(profile)
    os.makedirs(os.path.join(H.BUILD, 'scen'), exist_ok=True)
    inp = os.path.join(H.BUILD, 'scen', '%s_%d.in.json' % (tag, os.getpid()))
    out = os.path.join(H.BUILD, 'scen', '%s_%d.out.json' % (tag, os.getpid()))
    with open(inp, 'w') as f:
        json.dump({'scenarios': scenarios}, f)
    global LAST_NATIVE
    LAST_NATIVE = scenarios
    p = subprocess.run([b, inp, out], stdout=subprocess.DEVNULL, stderr=subprocess.PIPE)
    if p.returncode != 0 or not os.path.exists(out):
        raise Unsupported('native replay failed: %s' % p.stderr.decode()[-500:])
    res = json.load(open(out))['results']
    os.remove(inp)
    os.remove(out)
    return res


LAST_NATIVE = None


def save_replay(prop, name, doc):
    """a replay document: the counterexample, what the native run returned, and - so that
    `./.build/replay/release/verif-replay <document>` re-runs it against the current /repo build - the native scenarios of the
    last native run made for it"""
    d = os.path.join(H.VERIF, 'evidence', 'replays')
    os.makedirs(d, exist_ok=True)
    if isinstance(doc, dict) and 'scenarios' not in doc and LAST_NATIVE is not None and len(LAST_NATIVE) <= 4:
        doc = dict(doc, scenarios=LAST_NATIVE)
    p = os.path.join(d, '%s_%s.json' % (prop, name))
    with open(p, 'w') as f:
        json.dump(doc, f, indent=1, default=str)
    return p


def rng():
    return random.Random(seed() * 7919 + 17)


def run_check(main):
    """uniform exit-code protocol: 0 held / 1 violation / 2 inconclusive"""
    import threading
    box = {}

    def body():
        try:
            box['rc'] = main()
        except Unsupported as e:
            print('INCONCLUSIVE reason=%s' % (str(e)[:600],))
            box['rc'] = 2
        except BaseException:
            import traceback
            traceback.print_exc()
            box['rc'] = 3
    sys.setrecursionlimit(400000)
    threading.stack_size(1 << 30)
    t = threading.Thread(target=body)
    t.start()
    t.join()
    sys.stdout.flush()
    os._exit(box.get('rc', 3))
