"""Path-forking symbolic interpreter for rustc MIR (structure concrete, scalars symbolic, z3 Int encoding)."""
import re, sys, time
import z3
from . import mir
from .mir import INT_TYS, split_top, strip_generics, scan_top, match_close
from .srcinfo import SrcInfo

sys.setrecursionlimit(20000)


class Panic(Exception):
    """the Rust program panics (trap) on this path"""


class Unsupported(Exception):
    """construct the interpreter cannot execute: the check must stop inconclusive"""


class Infeasible(Exception):
    """an assumption made the current path infeasible"""


# ------------------------------------------------------------------------------------------ values
class Cell:
    __slots__ = ('v',)

    def __init__(self, v=None):
        self.v = v

    def __repr__(self):
        return 'Cell(%r)' % (self.v,)


class TransCell(Cell):
    """storage behind Box::new_uninit: field projections through MaybeUninit/ManuallyDrop wrappers are identity"""
    __slots__ = ()


class SInt:
    __slots__ = ('t', 'ty')

    def __init__(self, t, ty):
        self.t, self.ty = t, ty

    def __repr__(self):
        return '%s:%s' % (self.t, self.ty)

    @property
    def conc(self):
        return isinstance(self.t, int)


class Agg:
    __slots__ = ('ty', 'variant', 'fields', 'variants')

    def __init__(self, ty, fields, variant=None):
        self.ty, self.fields, self.variant = ty, fields, variant
        self.variants = None

    def __repr__(self):
        v = '' if self.variant is None else '#%s' % self.variant
        return '%s%s{%s}' % (self.ty, v, ', '.join(repr(c.v) for c in self.fields))

    def f(self, i):
        return self.fields[i].v


class Ref:
    __slots__ = ('cell',)

    def __init__(self, cell):
        self.cell = cell

    def __repr__(self):
        return '&%r' % (self.cell.v,)


class VecV:
    __slots__ = ('cells',)

    def __init__(self, cells=None):
        self.cells = cells if cells is not None else []

    def __repr__(self):
        return 'vec%r' % ([c.v for c in self.cells],)


class SliceRef:
    __slots__ = ('vec', 'lo', 'hi')

    def __init__(self, vec, lo, hi):
        self.vec, self.lo, self.hi = vec, lo, hi

    def cells(self):
        return self.vec.cells[self.lo:self.hi]

    def __len__(self):
        return self.hi - self.lo

    def __repr__(self):
        return '&[%s]' % ', '.join(repr(c.v) for c in self.cells())


class StrV:
    """&str / String contents (concrete)"""
    __slots__ = ('s',)

    def __init__(self, s):
        self.s = s

    def __repr__(self):
        return 'str(%r)' % (self.s,)


class Closure:
    __slots__ = ('key', 'fields', 'state')

    def __init__(self, key, fields=None):
        self.key, self.fields = key, fields or []

    def __repr__(self):
        return 'closure<%s>' % self.key


class FnItem:
    __slots__ = ('path',)

    def __init__(self, path):
        self.path = path

    def __repr__(self):
        return 'fn<%s>' % self.path


class Opaque:
    __slots__ = ('tag',)

    def __init__(self, tag=''):
        self.tag = tag

    def __repr__(self):
        return 'opaque<%s>' % self.tag


class Unit:
    def __repr__(self):
        return '()'


UNIT = Unit()


class Native:
    """scenario-provided object; trait calls on it are dispatched to `mcall`"""
    ty = 'Native'

    def mcall(self, it, trait, method, args):
        raise Unsupported('native call %s::%s on %r' % (trait, method, self))


def rng(ty):
    w = INT_TYS[ty]
    return (-(1 << (w - 1)), (1 << (w - 1)) - 1) if ty[0] == 'i' else (0, (1 << w) - 1)


_BOUNDS = {}          # name of a fresh symbolic integer -> (lo, hi), for the Interp currently running
_BCACHE = {}
MULF = z3.Function('mul', z3.IntSort(), z3.IntSort(), z3.IntSort())


def sym_mul(x, y, it=None):
    """product of two integers; symbolic x symbolic is an application of the uninterpreted function `mul` (argument
    order canonical) with the interval of the product as its only axiom: implementation and oracle share the term, so no
    verdict depends on the solver doing non-linear arithmetic"""
    if isinstance(x, int) or isinstance(y, int):
        return x * y
    sx, sy = z3.simplify(x), z3.simplify(y)
    if z3.is_int_value(sx):
        return sx.as_long() * y
    if z3.is_int_value(sy):
        return x * sy.as_long()
    if str(x) > str(y):
        x, y = y, x
    t = MULF(x, y)
    i = t.get_id()
    if i not in _BCACHE:
        _MUL_TERMS.append((t, x, y))
        a, b = ibounds(x), ibounds(y)
        r = None
        if a is not None and b is not None:
            ps = [a[0] * b[0], a[0] * b[1], a[1] * b[0], a[1] * b[1]]
            r = (min(ps), max(ps))
        _BCACHE[i] = (t, r)
        if r is not None and _CUR[0] is not None:
            _CUR[0].assume(z3.And(t >= r[0], t <= r[1]))
    return t


_CUR = [None]
_MUL_TERMS = []      # (mul(x, y), x, y) applications created on the current path


def ibounds(t):
    """conservative interval of an integer term (None = unknown); used to drop wrap-arounds that cannot happen"""
    if isinstance(t, int):
        return (t, t)
    i = t.get_id()
    ent = _BCACHE.get(i)
    if ent is not None:
        return ent[1]
    r = _ibounds(t)
    _BCACHE[i] = (t, r)       # the term is kept alive: z3 reuses the ids of collected terms
    return r


def _ibounds(t):
    if z3.is_int_value(t):
        v = t.as_long()
        return (v, v)
    k = t.decl().kind()
    if k == z3.Z3_OP_UNINTERPRETED and t.num_args() == 0:
        return _BOUNDS.get(t.decl().name())
    ch = t.children()
    if k == z3.Z3_OP_ADD:
        lo = hi = 0
        for c in ch:
            b = ibounds(c)
            if b is None:
                return None
            lo += b[0]
            hi += b[1]
        return (lo, hi)
    if k == z3.Z3_OP_SUB:
        b = ibounds(ch[0])
        if b is None:
            return None
        lo, hi = b
        for c in ch[1:]:
            b = ibounds(c)
            if b is None:
                return None
            lo -= b[1]
            hi -= b[0]
        return (lo, hi)
    if k == z3.Z3_OP_UMINUS:
        b = ibounds(ch[0])
        return None if b is None else (-b[1], -b[0])
    if k == z3.Z3_OP_MUL and len(ch) == 2:
        a, b = ibounds(ch[0]), ibounds(ch[1])
        if a is None or b is None:
            return None
        ps = [a[0] * b[0], a[0] * b[1], a[1] * b[0], a[1] * b[1]]
        return (min(ps), max(ps))
    if k == z3.Z3_OP_ITE:
        a, b = ibounds(ch[1]), ibounds(ch[2])
        if a is None or b is None:
            return None
        return (min(a[0], b[0]), max(a[1], b[1]))
    if k in (z3.Z3_OP_IDIV, z3.Z3_OP_DIV) and z3.is_int_value(ch[1]) and ch[1].as_long() > 0:
        a = ibounds(ch[0])
        if a is None or a[0] < 0:
            return None
        d = ch[1].as_long()
        return (a[0] // d, a[1] // d)
    if k == z3.Z3_OP_MOD and z3.is_int_value(ch[1]) and ch[1].as_long() > 0:
        m = ch[1].as_long()
        a = ibounds(ch[0])
        if a is not None and a[0] >= 0 and a[1] < m:
            return a
        return (0, m - 1)
    return None


def wrap(t, ty):
    lo, hi = rng(ty)
    m = hi - lo + 1
    if isinstance(t, int):
        return ((t - lo) % m) + lo
    b = ibounds(t)
    if b is not None and b[0] >= lo and b[1] <= hi:
        return t
    return z3.If(z3.And(t >= lo, t <= hi), t, ((t - lo) % m) + lo)


def in_range(t, ty):
    """python True if the term provably fits the type, else a formula / python bool"""
    lo, hi = rng(ty)
    if isinstance(t, int):
        return lo <= t <= hi
    b = ibounds(t)
    if b is not None and b[0] >= lo and b[1] <= hi:
        return True
    if b is not None and (b[1] < lo or b[0] > hi):
        return False
    return z3.And(t >= lo, t <= hi)


def mk(n, ty):
    return SInt(n, ty)


def zt(x):
    """z3 term for int-ish"""
    return z3.IntVal(x) if isinstance(x, int) else x


def zb(x):
    return z3.BoolVal(x) if isinstance(x, bool) else x


def b_and(*xs):
    ys = []
    for x in xs:
        if x is False:
            return False
        if x is True:
            continue
        ys.append(x)
    if not ys:
        return True
    return ys[0] if len(ys) == 1 else z3.And(*ys)


def b_or(*xs):
    ys = []
    for x in xs:
        if x is True:
            return True
        if x is False:
            continue
        ys.append(x)
    if not ys:
        return False
    return ys[0] if len(ys) == 1 else z3.Or(*ys)


def b_not(x):
    return (not x) if isinstance(x, bool) else z3.Not(x)


def b_ite(c, a, b):
    if isinstance(c, bool):
        return a if c else b
    return z3.If(c, zt(a) if not isinstance(a, bool) and not z3.is_bool(a) else zb(a),
                 zt(b) if not isinstance(b, bool) and not z3.is_bool(b) else zb(b))


def i_ite(c, a, b):
    if isinstance(c, bool):
        return a if c else b
    if isinstance(a, int) and isinstance(b, int) and a == b:
        return a
    return z3.If(c, zt(a), zt(b))


def is_bool(v):
    return isinstance(v, bool) or (isinstance(v, z3.ExprRef) and z3.is_bool(v))


def clone(v):
    """semantics of a MIR `copy` (bitwise copy of a Copy value)"""
    if isinstance(v, Agg):
        a = Agg(v.ty, [Cell(clone(c.v)) for c in v.fields], v.variant)
        if v.variants:
            a.variants = {k: Cell(clone(c.v)) for k, c in v.variants.items()}
        return a
    return v


def deep_clone(v):
    """semantics of Clone::clone for plain data (Vec included, references shared)"""
    if isinstance(v, Agg):
        return Agg(v.ty, [Cell(deep_clone(c.v)) for c in v.fields], v.variant)
    if isinstance(v, VecV):
        return VecV([Cell(deep_clone(c.v)) for c in v.cells])
    if isinstance(v, StrV):
        return StrV(v.s)
    return v


def some(v):
    return Agg('Option', [Cell(v)], 1)


def none():
    return Agg('Option', [], 0)


def ok(v):
    return Agg('Result', [Cell(v)], 0)


def err(v):
    return Agg('Result', [Cell(v)], 1)


def tup(*vs):
    return Agg('()', [Cell(v) for v in vs])


def scal(v):
    """unwrap single-field newtypes down to the scalar"""
    while isinstance(v, Agg):
        v = v.fields[0].v
    return v


# ------------------------------------------------------------------------------------------ callee keys
def type_head(ty):
    ty = ty.strip()
    pre = ''
    while ty.startswith('&') or ty.startswith('*const ') or ty.startswith('*mut '):
        if ty.startswith('&'):
            ty = ty[1:].strip()
            if ty.startswith("'"):
                ty = ty.split(' ', 1)[1] if ' ' in ty else ''
            if ty.startswith('mut '):
                ty = ty[4:]
            pre += '&'
        else:
            ty = ty.split(' ', 1)[1]
            pre += '*'
    if ty.startswith('dyn '):
        ty = ty[4:]
    if ty.startswith('['):
        e = match_close(ty, 0)
        inner = ty[1:e]
        return pre + ('[T;N]' if len(split_top(inner, ';')) == 2 else '[T]')
    if ty.startswith('('):
        return pre + ('()' if ty == '()' else '(tuple)')
    if ty.startswith('{closure@') or ty.startswith('{coroutine@'):
        return pre + '{closure}'
    if ty.startswith('{async '):
        return pre + '{async}'
    if ty.startswith('fn(') or ty.startswith('for<') or ty.startswith('unsafe fn(') or ty.startswith('extern '):
        return pre + '{fn}'
    s = strip_generics(ty)
    return pre + s.split('::')[-1].strip()


_KEY_CACHE = {}


def callee_key(s):
    """('trait', self_head, trait_head, method) | ('path', [segs])"""
    k = _KEY_CACHE.get(s)
    if k is not None:
        return k
    if s.startswith('<'):
        e = match_close(s, 0)
        inner, rest = s[1:e], s[e + 1:]
        x, y = inner, None
        for i, c, d in scan_top(inner):
            if d == 0 and inner.startswith(' as ', i):
                x, y = inner[:i], inner[i + 4:]
                break
        method = strip_generics(rest).strip(':')
        if y is None:
            k = ('path', [type_head(x)] + method.split('::'))
        else:
            k = ('trait', type_head(x), type_head(y).lstrip('&'), method, x.strip())
    else:
        # <impl T> groups
        out, i = [], 0
        while i < len(s):
            if s.startswith('<impl ', i):
                e = match_close(s, i)
                out.append('impl#' + type_head(s[i + 6:e]))
                i = e + 1
            else:
                out.append(s[i])
                i += 1
        segs = [x for x in strip_generics(''.join(out)).split('::') if x]
        k = ('path', segs)
    _KEY_CACHE[s] = k
    return k


def skeleton(key):
    if key[0] == 'trait':
        return '<%s as %s>::%s' % (key[1], key[2], key[3])
    return '::'.join(key[1][-2:])


# ------------------------------------------------------------------------------------------ program
IMPL_RE = re.compile(r'<impl at ([^:>]+):(\d+):(\d+): (\d+):(\d+)>')
CLOSURE_AT_RE = re.compile(r'\{closure@([^}]*?)\}')
COROUTINE_AT_RE = re.compile(r'\{coroutine@([^}]*?)( \(#\d+\))?\}')


class Program:
    def __init__(self, repo):
        self.src = SrcInfo(repo)
        self.bodies = []
        self.consts = {}
        self.by_name = {}       # exact MIR name -> Body
        self.inherent = {}      # (TypeHead, method) -> [Body]
        self.traitimpl = {}     # (TypeHead, TraitHead, method) -> [Body]
        self.impl_consts = {}   # (TypeHead, TraitHead | None, NAME) -> Body
        self.free = {}          # last segment -> [Body]
        self.closures = {}      # closure location -> Body
        self.models = {}        # skeleton -> python fn(it, key, raw, args)
        self.overrides = {}     # skeleton or exact callee -> python fn
        self.drop_types = set()
        self.call_cache = {}
        self.adt_cache = {}
        self.stats = {}
        for name, vs in (('Option', ['None', 'Some']), ('Result', ['Ok', 'Err']), ('ControlFlow', ['Continue', 'Break']),
                         ('Poll', [('Ready', 'tuple', 1, 0), ('Pending', 'unit', 0, 1)]),
                         ('Ordering', [('Less', 'unit', 0, -1), ('Equal', 'unit', 0, 0), ('Greater', 'unit', 0, 1)]),
                         ('Bound', ['Included', 'Excluded', ('Unbounded', 'unit', 0, 2)]),
                         ('Cow', ['Borrowed', 'Owned'])):
            self.src.add_builtin_enum(name, vs)

    def load_mir(self, path, crate):
        bodies, consts = mir.parse_file(path)
        self.consts.update(consts)
        for b in bodies:
            b.kind = (b.kind, crate)
            self.bodies.append(b)
            self.by_name.setdefault(b.name, b)
            self.index_body(b)

    def index_body(self, b):
        name = b.name
        if b.kind[0] in ('const', 'static', 'static mut', 'promoted'):
            m = IMPL_RE.search(name) if b.kind[0] == 'const' else None
            if m and name[m.end():].startswith('::') and '::' not in name[m.end() + 2:]:
                # associated constant of an impl block: reachable as `<T as Trait>::NAME` / `T::NAME`
                tr, ty, _ = self.src.impl_header(m.group(1), int(m.group(2)), int(m.group(3)), int(m.group(4)), int(m.group(5)))
                self.impl_consts[(ty, tr, name[m.end() + 2:])] = b
            return
        m_clo = re.search(r'::\{closure#\d+\}$', name)
        if m_clo:
            # closure / coroutine body: first param type names its location
            p1 = b.param_tys[0] if b.param_tys else ''
            m = CLOSURE_AT_RE.search(p1)
            if m:
                self.closures[m.group(1)] = b
            else:
                self.closures['async:' + name[:m_clo.start()]] = b
            return
        m = IMPL_RE.search(name)
        if m:
            rest = name[m.end():]
            if not rest.startswith('::'):
                return
            method = rest[2:]
            tr, ty, _ = self.src.impl_header(m.group(1), int(m.group(2)), int(m.group(3)), int(m.group(4)), int(m.group(5)))
            if tr is None:
                self.inherent.setdefault((ty, method), []).append(b)
            else:
                self.traitimpl.setdefault((ty, tr, method), []).append(b)
                if tr == 'Drop' and method == 'drop':
                    self.drop_types.add(ty)
            return
        segs = name.split('::')
        self.free.setdefault(segs[-1], []).append(b)

    # ---- resolution of a call to a crate body
    def resolve(self, key, raw):
        if key[0] == 'trait':
            _, th, tr, method, _x = key
            c = self.traitimpl.get((th.lstrip('&'), tr, method))
            if c:
                if len(c) > 1 and tr in ('From', 'TryFrom'):
                    m = re.search(r' as (?:[\w:]*::)?(?:From|TryFrom)<(.*)>>::\w+$', raw)
                    if m:
                        src = type_head(m.group(1))
                        c2 = [b for b in c if b.param_tys and type_head(b.param_tys[0]) == src]
                        if c2:
                            c = c2
                return self.pick(c, raw)
            if tr in ('Into', 'TryInto'):
                # blanket impl: <X as Into<Y>>::into == <Y as From<X>>::from
                m = re.search(r' as (?:[\w:]*::)?(?:Into|TryInto)<(.*)>>::\w+$', raw)
                if m:
                    tgt = type_head(m.group(1))
                    c = self.traitimpl.get((tgt, 'From' if tr == 'Into' else 'TryFrom', 'from' if tr == 'Into' else 'try_from'))
                    if c:
                        c2 = [b for b in c if b.param_tys and type_head(b.param_tys[0]) == th]
                        if len(c2) > 1:
                            # same type name in two crates (e.g. ic_btc_types::Txid / ic_btc_interface::Txid): compare crate-qualified
                            ms = re.match(r'^<(.+?) as ', raw)
                            if ms:
                                full = lambda b: b.param_tys[0] if '::' in b.param_tys[0] else '%s::%s' % (b.kind[1], b.param_tys[0])
                                c3 = [b for b in c2 if full(b) == ms.group(1)]
                                if c3:
                                    c2 = c3
                        if len(c2) >= 1:
                            return self.pick(c2, raw)
            return None
        segs = key[1]
        if len(segs) >= 2:
            c = self.inherent.get((segs[-2], segs[-1]))
            if c:
                return self.pick(c, raw)
        c = self.free.get(segs[-1])
        if c and not any(x[:1].isupper() or x.startswith('impl#') or x.startswith('{') for x in segs[:-1]):
            mods = self.src.modules
            good = []
            for b in c:
                bs = b.name.split('::')
                if bs[-len(segs):] == segs:
                    good.append(b)
                elif len(bs) < len(segs) and segs[-len(bs):] == bs and all(x in mods for x in segs[:-len(bs)]):
                    good.append(b)
            if len(good) == 1 or (good and len(set(b.name for b in good)) == 1):
                return good[0]
            if len(good) > 1:
                exact = [b for b in good if b.name == '::'.join(segs)]
                if len(exact) == 1:
                    return exact[0]
                raise Unsupported('ambiguous free fn %r: %s' % (raw, [b.name for b in good]))
        return None

    def pick(self, cands, raw):
        if len(cands) == 1 or len(set(b.name for b in cands)) == 1:
            return cands[0]     # (const fns are printed twice: once as runtime MIR, once as CTFE MIR)
        # disambiguate by module names appearing in the raw callee
        scored = []
        for b in cands:
            mods = [x for x in re.split(r'::|<|>| ', b.name.split('<impl')[0]) if x]
            scored.append((sum(1 for x in mods if re.search(r'\b%s\b' % re.escape(x), raw)), b))
        scored.sort(key=lambda t: -t[0])
        if scored[0][0] > scored[1][0]:
            return scored[0][1]
        raise Unsupported('ambiguous method %r: %s' % (raw, [b.name for b in cands]))


def model(*skels):
    def deco(f):
        for s in skels:
            MODELS[s] = f
        return f
    return deco


MODELS = {}
RE_MODELS = []


def re_model(pattern):
    def deco(f):
        RE_MODELS.append((re.compile(pattern), f))
        return f
    return deco


# ------------------------------------------------------------------------------------------ interpreter
OVERFLOW_ASSERT = re.compile(r'^"attempt to (compute `\{\} [+\-*] \{\}`|negate|shift (left|right))')


class Interp:
    def __init__(self, prog, decisions=None, mode='dev', timeout_ms=60000):
        self.prog = prog
        self.mode = mode
        self.solver = z3.Solver()
        self.solver.set('timeout', timeout_ms)
        self.decisions = list(decisions or [])
        self.dpos = 0
        self.pending = []
        self.model_ = None
        self.pc = []
        self.nq = 0
        self.nblocks = 0
        self.solver_s = 0.0
        self.globals = {}
        self.depth = 0
        self.fresh_n = 0
        self.trace = None
        self.overrides = {}
        self.log = []
        self.max_blocks = 50_000_000
        _BOUNDS.clear()
        _BCACHE.clear()
        del _MUL_TERMS[:]
        _CUR[0] = self

    # ---- solver plumbing
    def _check(self, extra=None):
        t = time.time()
        self.nq += 1
        if extra is not None:
            self.solver.push()
            self.solver.add(extra)
        r = self.solver.check()
        m = self.solver.model() if r == z3.sat else None
        if extra is not None:
            self.solver.pop()
        self.solver_s += time.time() - t
        if r == z3.unknown:
            raise Unsupported('solver unknown: %s' % self.solver.reason_unknown())
        return r == z3.sat, m

    def assume(self, cond):
        if isinstance(cond, bool):
            if not cond:
                raise Infeasible()
            return
        self.solver.add(cond)
        self.pc.append(cond)
        if self.model_ is not None and not z3.is_true(self.model_.eval(cond, model_completion=True)):
            self.model_ = None

    def feasible(self):
        if self.model_ is not None:
            return True
        s, m = self._check()
        self.model_ = m
        return s

    def branch(self, cond):
        """decide a boolean; forks the path if both sides are feasible"""
        if isinstance(cond, bool):
            return cond
        cond = z3.simplify(cond)
        if z3.is_true(cond):
            return True
        if z3.is_false(cond):
            return False
        if self.dpos < len(self.decisions):
            d = self.decisions[self.dpos]
            self.dpos += 1
            c = cond if d else z3.Not(cond)
            self.solver.add(c)
            self.pc.append(c)
            self.model_ = None
            return bool(d)
        if self.model_ is None:
            s, m = self._check()
            if not s:
                raise Infeasible()
            self.model_ = m
        cur = z3.is_true(self.model_.eval(cond, model_completion=True))
        other = z3.Not(cond) if cur else cond
        s, m = self._check(other)
        if s:
            # both feasible: explore `True` side first
            d = True
            self.pending.append(self.decisions[:self.dpos] + [0])
            if not cur:
                self.model_ = m
        else:
            d = cur
        self.decisions.append(1 if d else 0)
        self.dpos += 1
        c = cond if d else z3.Not(cond)
        self.solver.add(c)
        self.pc.append(c)
        return d

    def choose(self, n, label=''):
        """non-deterministic choice among n alternatives decided by the harness (no solver involved)"""
        if n <= 0:
            raise Infeasible()
        if n == 1:
            return 0
        if self.dpos < len(self.decisions):
            d = self.decisions[self.dpos]
            self.dpos += 1
            if d >= n:
                raise Infeasible()      # a forced prefix that does not exist at this decision point
            return d
        for k in range(n - 1, 0, -1):
            self.pending.append(self.decisions[:self.dpos] + [k])
        self.decisions.append(0)
        self.dpos += 1
        return 0

    def concretize(self, v, lo, hi, what='value'):
        """fork over the possible concrete values of an integer term within [lo, hi)"""
        t = v.t if isinstance(v, SInt) else v
        if isinstance(t, int):
            return t
        s = z3.simplify(t)
        if z3.is_int_value(s):
            return s.as_long()
        for k in range(lo, hi):
            if self.branch(t == k):
                return k
        return None

    def fresh(self, name, ty, lo=None, hi=None):
        v = z3.Int(name)
        l, h = rng(ty)
        l, h = (l if lo is None else lo), (h if hi is None else hi)
        self.assume(z3.And(v >= l, v <= h))
        _BOUNDS[name] = (l, h)
        return SInt(v, ty)

    def declare_bounds(self, term, lo, hi):
        """tell the interval analysis about a scenario-created integer constant (also assumes the range)"""
        self.assume(z3.And(term >= lo, term <= hi))
        _BOUNDS[term.decl().name()] = (lo, hi)

    def fresh_bool(self, name):
        return z3.Bool(name)

    # ---- places
    def place(self, p, frame):
        loc, projs = p
        cell = frame.get(loc)
        if cell is None:
            cell = frame[loc] = Cell()
        for pr in projs:
            k = pr[0]
            if k == 'field':
                v = cell.v
                if isinstance(cell, TransCell) or isinstance(v, Ref):
                    continue    # Box<T> / Unique<T> / NonNull<T> wrappers around a pointer are transparent
                if v is None:
                    v = cell.v = Agg(None, [])
                if isinstance(v, Closure):
                    fs = v.fields
                elif isinstance(v, Agg):
                    fs = v.fields
                elif isinstance(v, Opaque):
                    # a part of the state the scenario declared not observable: its sub-places are opaque too
                    cell = Cell(Opaque(v.tag + '.%d' % pr[1]))
                    continue
                else:
                    raise Unsupported('field of %r' % (v,))
                i = pr[1]
                while len(fs) <= i:
                    fs.append(Cell())
                cell = fs[i]
            elif k == 'deref':
                v = cell.v
                if isinstance(v, Ref):
                    cell = v.cell
                elif isinstance(v, (SliceRef, StrV)):
                    cell = Cell(v)
                else:
                    raise Unsupported('deref of %r' % (v,))
            elif k == 'downcast':
                if pr[1].startswith('variant#'):
                    v = cell.v
                    if v.variants is None:
                        v.variants = {}
                    cell = v.variants.setdefault(pr[1], Cell(Agg('variant', [])))
            elif k == 'index':
                idx = frame[pr[1]].v
                cell = self.index_cell(cell.v, idx)
            elif k == 'constindex':
                _, i, from_end, _min = pr
                cs = self.seq_cells(cell.v)
                cell = cs[len(cs) - i] if from_end else cs[i]
            elif k == 'subslice':
                _, a, b, from_end = pr
                v = cell.v
                if isinstance(v, SliceRef):
                    cell = Cell(SliceRef(v.vec, v.lo + a, v.hi - b if from_end else v.lo + b))
                else:
                    cs = self.seq_cells(v)
                    cell = Cell(SliceRef(VecV(cs), a, len(cs) - b if from_end else b))
            else:
                raise Unsupported('projection %r' % (pr,))
        return cell

    def seq_cells(self, v):
        if isinstance(v, VecV):
            return v.cells
        if isinstance(v, SliceRef):
            return v.cells()
        if isinstance(v, Agg):
            return v.fields
        raise Unsupported('not a sequence: %r' % (v,))

    def index_cell(self, base, idx):
        cs = self.seq_cells(base)
        k = self.concretize(idx, 0, len(cs), 'index')
        if k is None or k < 0 or k >= len(cs):
            raise Panic('index out of bounds')
        return cs[k]

    # ---- operands
    def operand(self, o, frame):
        k = o[0]
        if k == 'copy':
            return clone(self.place(o[1], frame).v)
        if k == 'move':
            return self.place(o[1], frame).v
        return self.const(o[1], frame)

    def const(self, c, frame=None):
        k = c[0]
        if k == 'int':
            return SInt(c[1], c[2])
        if k == 'bool':
            return c[1]
        if k == 'unit':
            return UNIT
        if k == 'str':
            return StrV(c[1])
        if k == 'bytes':
            bs = mir.unescape(c[1])
            return Ref(Cell(Agg('[]', [Cell(SInt(b, 'u8')) for b in bs])))
        if k == 'char':
            s = c[1]
            if s.startswith('\\'):
                s = bytes(s, 'utf-8').decode('unicode_escape')
            return SInt(ord(s), 'char')
        if k == 'float':
            return c[1]
        if k == 'zst':
            t = c[1]
            m = CLOSURE_AT_RE.match(t)
            if m:
                return Closure(m.group(1))
            if t.startswith('fn(') or t.startswith('for<') or '{' in t:
                m = re.search(r'\{([^{}]*)\}\s*$', t)
                if m:
                    return FnItem(m.group(1))
            return Agg(type_head(t), [])
        if k == 'fnitem':
            return FnItem(c[1])
        if k == 'promoted':
            b = None
            if frame is not None:
                b = self.prog.by_name.get('%s::promoted[%d]' % (frame['__body__'].name, c[2]))
            if b is None:
                b = self.prog.by_name.get('%s::promoted[%d]' % (c[1], c[2]))
            if b is None:
                # promoted names use the trimmed path of the enclosing fn
                last = c[1].split('::')[-1]
                cands = [x for n, x in self.prog.by_name.items() if n.endswith('%s::promoted[%d]' % (last, c[2]))]
                cands = [x for x in cands if x.name == '%s::promoted[%d]' % (c[1], c[2])] or cands
                if len(cands) != 1:
                    raise Unsupported('promoted %r' % (c,))
                b = cands[0]
            return self.run(b, [])
        if k == 'named':
            return self.named_const(c[1])
        raise Unsupported('const %r' % (c,))

    def named_const(self, name):
        if name in self.overrides:
            return self.overrides[name](self)
        sn = strip_generics(name)
        suffix = [k for k in self.prog.consts if sn == k or sn.endswith('::' + k)]
        if suffix:
            k = max(suffix, key=len)
            return self.const(mir.parse_operand(self.prog.consts[k])[1])
        for cand in (name, sn, sn.split('::')[-1]):
            if cand in self.prog.consts:
                return self.const(mir.parse_operand(self.prog.consts[cand])[1])
            b = self.prog.by_name.get(cand)
            if b is not None and b.kind[0] in ('const', 'static'):
                return self.run(b, [])
        m = re.match(r'^<(.+) as (.+)>::(\w+)$', name)
        if m:
            b = self.prog.impl_consts.get((type_head(m.group(1)), type_head(m.group(2)), m.group(3)))
            if b is not None:
                return self.run(b, [])
        m = re.match(r'^(?:std::option::)?Option::<.*>::None$', name)
        if m:
            return none()
        m = re.match(r'^([\w:<>, ]+?)\((.*)\)$', name)
        if m:
            # a constant of a tuple struct / tuple variant, e.g. `FetchBlocksGuard(())`
            ent = self.adt_resolve(m.group(1))
            inner = [self.const(mir.parse_const(x)) for x in split_top(m.group(2))]
            if ent[0] == 'struct':
                return Agg(ent[1].name, [Cell(v) for v in inner])
            if ent[0] == 'variant':
                return Agg(ent[1].name, [Cell(v) for v in inner], ent[2][3])
        mi = re.search(r'<impl (\w+)>::(\w+)$', name)
        if mi and ('%s::%s' % (mi.group(1), mi.group(2))) in CONST_MODELS:
            return CONST_MODELS['%s::%s' % (mi.group(1), mi.group(2))](self)
        f = CONST_MODELS.get(sn) or CONST_MODELS.get('::'.join(sn.split('::')[-2:]))
        if f:
            return f(self)
        raise Unsupported('named const %r' % name)

    # ---- rvalues
    def rvalue(self, r, frame):
        k = r[0]
        if k == 'use':
            return self.operand(r[1], frame)
        if k == 'ref':
            p = r[2]
            if p[1] and p[1][-1][0] == 'deref':
                # reborrow: &*p  == p
                v = self.place((p[0], p[1][:-1]), frame).v
                if isinstance(v, (Ref, SliceRef, StrV)):
                    return v
                raise Unsupported('reborrow of %r' % (v,))
            c = self.place(p, frame)
            if isinstance(c.v, (SliceRef,)) and p[1] and p[1][-1][0] == 'subslice':
                return c.v
            return Ref(c)
        if k == 'binop':
            return self.binop(r[1], self.operand(r[2], frame), self.operand(r[3], frame))
        if k == 'unop':
            a = self.operand(r[2], frame)
            if r[1] == 'Not':
                if is_bool(a):
                    return b_not(a)
                if a.conc:
                    return SInt(wrap(~a.t, a.ty), a.ty)
                lo, hi = rng(a.ty)
                return SInt(hi - a.t + lo if a.ty[0] == 'u' else -a.t - 1, a.ty)
            if r[1] == 'Neg':
                if isinstance(a, float):
                    return -a
                return SInt(wrap(-a.t, a.ty), a.ty)
            if r[1] == 'PtrMetadata':
                if isinstance(a, SliceRef):
                    return SInt(len(a), 'usize')
                if isinstance(a, StrV):
                    return SInt(len(a.s.encode()), 'usize')
                if isinstance(a, Ref) and isinstance(a.cell.v, (SliceRef,)):
                    return SInt(len(a.cell.v), 'usize')
                raise Unsupported('PtrMetadata of %r' % (a,))
        if k == 'cast':
            return self.cast(self.operand(r[1], frame), r[2], r[3])
        if k == 'discriminant':
            v = self.place(r[1], frame).v
            if isinstance(v, Agg) and v.variant is not None:
                # negative discriminants (Ordering::Less = -1) are matched by their raw i8 bits in switchInt
                return SInt(v.variant if v.variant >= 0 else v.variant + 256, 'isize')
            if isinstance(v, Closure):
                return SInt(v.state, 'u32')
            raise Unsupported('discriminant of %r' % (v,))
        if k == 'tuple':
            return Agg('()', [Cell(self.operand(x, frame)) for x in r[1]])
        if k == 'array':
            return Agg('[]', [Cell(self.operand(x, frame)) for x in r[1]])
        if k == 'repeat':
            v = self.operand(r[1], frame)
            n = self.const_len(r[2])
            return Agg('[]', [Cell(clone(v)) for _ in range(n)])
        if k == 'len':
            return SInt(len(self.seq_cells(self.place(r[1], frame).v)), 'usize')
        if k == 'closure':
            head = r[1]
            m = CLOSURE_AT_RE.match(head)
            if m:
                return Closure(m.group(1), [Cell(self.operand(x, frame)) for x in r[2]])
            m = COROUTINE_AT_RE.match(head)
            if m:
                # an `async fn` body / coroutine: a state machine value; its poll function is `<creator>::{closure#0}`
                return Agg('coroutine:' + frame['__body__'].name, [Cell(self.operand(x, frame)) for x in r[2]], 0)
            raise Unsupported('closure rvalue %r' % head)
        if k == 'adt':
            return self.adt(r, frame)
        if k == 'tlsref':
            return self.tls(r[1])
        raise Unsupported('rvalue %r' % (r,))

    def tls(self, name):
        g = self.globals.get(name)
        if g is None:
            raise Unsupported('thread local %s' % name)
        return Ref(g)

    def const_len(self, s):
        m = re.match(r'^(?:const )?(\d+)(_usize)?$', s.strip())
        if m:
            return int(m.group(1))
        v = self.named_const(s.replace('const ', '').strip())
        return v.t

    def adt(self, r, frame):
        _, path, kind, fields = r
        crate = frame['__body__'].kind[1] if frame is not None else None
        ent = self.prog.adt_cache.get((path, crate))
        if ent is None:
            ent = self.prog.adt_cache[(path, crate)] = self.adt_resolve(path, crate)
        what, d, extra = ent
        if what == 'struct':
            if kind == 'named':
                vals = {fn: self.operand(fv, frame) for fn, fv in fields}
                try:
                    return Agg(d.name, [Cell(vals[fn]) for fn in d.fields])
                except KeyError:
                    raise Unsupported('struct fields mismatch %r %r' % (path, d.fields))
            return Agg(d.name, [Cell(self.operand(x, frame)) for x in fields])
        if what == 'variant':
            vn, vk, vf, discr = extra
            if kind == 'named':
                vals = {fn: self.operand(fv, frame) for fn, fv in fields}
                return Agg(d.name, [Cell(vals[fn]) for fn in vf], discr)
            return Agg(d.name, [Cell(self.operand(x, frame)) for x in fields], discr)
        if what == 'model':
            return d(self, kind, [(x[0], self.operand(x[1], frame)) if kind == 'named' else self.operand(x, frame) for x in fields])
        raise Unsupported('unknown ADT %r' % path)

    def adt_resolve(self, path, crate=None):
        segs = [x for x in strip_generics(path).split('::') if x]
        src = self.prog.src
        d = src.find_adt(segs, crate)
        if isinstance(d, tuple):
            raise Unsupported('ambiguous ADT %r' % path)
        if d is not None and d.kind == 'struct':
            return ('struct', d, None)
        if len(segs) >= 2:
            e = src.find_adt(segs[:-1], crate)
            if isinstance(e, tuple):
                raise Unsupported('ambiguous ADT %r' % path)
            if e is not None and e.kind == 'enum':
                try:
                    _, v = e.variant(segs[-1])
                except KeyError:
                    raise Unsupported('unknown variant %r' % path)
                return ('variant', e, v)
        f = ADT_MODELS.get('::'.join(segs[-2:])) or ADT_MODELS.get(segs[-1])
        if f:
            return ('model', f, None)
        if len(segs) == 1:
            # a bare variant name (rustc trims the path when the name is unique)
            hits = []
            for lst in src.adts.values():
                for e in lst:
                    if e.kind == 'enum':
                        for v in e.variants:
                            if v[0] == segs[0]:
                                hits.append((e, v))
            if len(hits) > 1 and crate:
                own = [h for h in hits if h[0].mod and h[0].mod[0] == crate]
                hits = own or hits
            if len(hits) == 1:
                return ('variant', hits[0][0], hits[0][1])
            if len(hits) > 1 and len(set((h[0].name, h[1][3]) for h in hits)) == 1:
                return ('variant', hits[0][0], hits[0][1])
        return ('none', None, None)

    def cast(self, v, ty, kind):
        if kind == 'IntToInt':
            if is_bool(v):
                return SInt(i_ite(v, 1, 0), ty)
            if ty == 'char':
                return SInt(v.t, 'char')
            if v.ty == 'char':
                return SInt(wrap(v.t, ty), ty)
            lo, hi = rng(ty)
            l2, h2 = rng(v.ty) if v.ty in INT_TYS else (None, None)
            if l2 is not None and l2 >= lo and h2 <= hi:
                return SInt(v.t, ty)
            return SInt(wrap(v.t, ty), ty)
        if kind in ('Transmute', 'PtrToPtr', 'FnPtrToPtr', 'Subtype') or kind.startswith('PointerCoercion(ReifyFnPointer') \
                or kind.startswith('PointerCoercion(ClosureFnPointer') or kind.startswith('PointerCoercion(MutToConstPointer') \
                or kind.startswith('PointerCoercion(UnsafeFnPointer'):
            return v
        if kind.startswith('PointerCoercion(Unsize'):
            if isinstance(v, Ref) and isinstance(v.cell.v, Agg) and v.cell.v.ty == '[]' and type_head(ty).lstrip('&*') == '[T]':
                a = v.cell.v
                return SliceRef(VecV(a.fields), 0, len(a.fields))
            return v
        if kind == 'IntToFloat':
            if v.conc:
                return float(v.t)
            raise Unsupported('IntToFloat on symbolic')
        if kind == 'FloatToInt':
            if isinstance(v, float):
                lo, hi = rng(ty)
                return SInt(max(lo, min(hi, int(v))), ty)
            raise Unsupported('FloatToInt on symbolic')
        if kind == 'FloatToFloat':
            return v
        raise Unsupported('cast kind %s' % kind)

    def binop(self, op, a, b):
        if isinstance(a, float) or isinstance(b, float):
            return {'Add': lambda: a + b, 'Sub': lambda: a - b, 'Mul': lambda: a * b, 'Div': lambda: a / b,
                    'Lt': lambda: a < b, 'Le': lambda: a <= b, 'Gt': lambda: a > b, 'Ge': lambda: a >= b,
                    'Eq': lambda: a == b, 'Ne': lambda: a != b}[op]()
        if is_bool(a):
            if op == 'Eq':
                return (a == b) if isinstance(a, bool) and isinstance(b, bool) else (zb(a) == zb(b))
            if op == 'Ne':
                return (a != b) if isinstance(a, bool) and isinstance(b, bool) else (zb(a) != zb(b))
            if op == 'BitAnd':
                return b_and(a, b)
            if op == 'BitOr':
                return b_or(a, b)
            if op == 'BitXor':
                return (a != b) if isinstance(a, bool) and isinstance(b, bool) else z3.Xor(zb(a), zb(b))
            raise Unsupported('bool binop %s' % op)
        if isinstance(a, UNIT.__class__):
            return {'Eq': True, 'Ne': False}[op]
        if not isinstance(a, SInt) or not isinstance(b, SInt):
            if op in ('Eq', 'Ne') and isinstance(a, Ref) and isinstance(b, Ref):
                r = a.cell is b.cell
                return r if op == 'Eq' else not r
            raise Unsupported('binop %s on %r, %r' % (op, a, b))
        x, y, ty = a.t, b.t, a.ty
        cc = isinstance(x, int) and isinstance(y, int)
        if op.endswith('WithOverflow'):
            base = op[:-12]
            wide = x + y if base == 'Add' else x - y if base == 'Sub' else sym_mul(x, y)
            ir = in_range(wide, ty)
            ovf = (not ir) if isinstance(ir, bool) else z3.Not(ir)
            return Agg('()', [Cell(SInt(wrap(wide, ty), ty)), Cell(ovf)])
        if op in ('Add', 'AddUnchecked'):
            return SInt(wrap(x + y, ty), ty)
        if op in ('Sub', 'SubUnchecked'):
            return SInt(wrap(x - y, ty), ty)
        if op in ('Mul', 'MulUnchecked'):
            return SInt(wrap(sym_mul(x, y), ty), ty)
        if op == 'Eq':
            return x == y
        if op == 'Ne':
            return x != y
        if op == 'Lt':
            return x < y
        if op == 'Le':
            return x <= y
        if op == 'Gt':
            return x > y
        if op == 'Ge':
            return x >= y
        if op in ('Div', 'Rem'):
            if cc:
                if y == 0:
                    raise Panic('division by zero')
                q = abs(x) // abs(y) * (1 if (x >= 0) == (y >= 0) else -1)
                return SInt(q if op == 'Div' else x - q * y, ty)
            if ty[0] == 'u':
                return SInt(x / y if op == 'Div' else x % y, ty)
            raise Unsupported('signed symbolic div')
        if op in ('BitAnd', 'BitOr', 'BitXor', 'Shl', 'Shr', 'ShlUnchecked', 'ShrUnchecked'):
            if cc:
                w = INT_TYS.get(ty, 32)
                if op == 'BitAnd':
                    r = x & y
                elif op == 'BitOr':
                    r = x | y
                elif op == 'BitXor':
                    r = x ^ y
                elif op.startswith('Shl'):
                    r = x << (y % w)
                else:
                    r = x >> (y % w)
                return SInt(wrap(r, ty), ty)
            return SInt(self.sym_bitop(op, x, y, ty), ty)
        if op == 'Cmp':
            lt = self.branch(x < y)
            if lt:
                return Agg('Ordering', [], -1)
            return Agg('Ordering', [], 0 if self.branch(x == y) else 1)
        raise Unsupported('binop %s' % op)

    def sym_bitop(self, op, x, y, ty):
        w = INT_TYS[ty]
        if ty[0] == 'u' and isinstance(y, int):
            if op == 'BitAnd' and y == (1 << w) - 1:
                return x
            if op == 'BitAnd' and (y & (y + 1)) == 0:      # low mask
                return x % (y + 1)
            if op == 'BitXor' and y == (1 << w) - 1:
                return y - x
            if op.startswith('Shr'):
                return x / (1 << (y % w))
            if op.startswith('Shl'):
                return wrap(x * (1 << (y % w)), ty)
        # general: via bit-vectors
        bx, by = z3.Int2BV(zt(x), w), z3.Int2BV(zt(y), w)
        r = {'BitAnd': lambda: bx & by, 'BitOr': lambda: bx | by, 'BitXor': lambda: bx ^ by,
             'Shl': lambda: bx << by, 'Shr': lambda: z3.LShR(bx, by) if ty[0] == 'u' else bx >> by,
             'ShlUnchecked': lambda: bx << by, 'ShrUnchecked': lambda: z3.LShR(bx, by) if ty[0] == 'u' else bx >> by}[op]()
        return z3.BV2Int(r, ty[0] == 'i')

    # ---- calls
    def call(self, raw, args, frame=None):
        self.nblocks += 1
        ovs = self.overrides
        if ovs:
            ov = ovs.get(raw)
            if ov is not None:
                return ov(self, None, raw, args)
        ent = self.prog.call_cache.get(raw)
        if ent is None:
            ent = self.prog.call_cache[raw] = self.static_resolve(raw)
        key, sk, kind, target = ent
        if ovs:
            ov = ovs.get(sk)
            if ov is not None:
                return ov(self, key, raw, args)
        if kind == 'ambiguous':
            raise Unsupported(str(target))
        if kind == 'body':
            if key[0] == 'trait' and key[1].startswith('&'):
                # impl of the trait for &T forwards to T's impl: strip one reference level per '&'
                for _ in range(len(key[1]) - len(key[1].lstrip('&'))):
                    args = [a.cell.v if isinstance(a, Ref) and isinstance(a.cell.v, Ref) else a for a in args]
            return self.run(target, args)
        if kind == 'model':
            return target(self, key, raw, args)
        if kind == 'fmt':
            return ok(UNIT)
        if kind == 'dyn':
            r = self.dyn_dispatch(key, raw, args)
            if r is not NotImplemented:
                return r
        for rx, f in RE_MODELS:
            if rx.search(raw):
                return f(self, key, raw, args)
        raise Unsupported('call %r (skeleton %r)' % (raw, sk))

    def static_resolve(self, raw):
        key = callee_key(raw)
        sk = skeleton(key)
        if key[0] == 'trait' and key[3] == 'fmt':
            return (key, sk, 'fmt', None)
        try:
            b = self.prog.resolve(key, raw)
        except Unsupported as e:
            return (key, sk, 'ambiguous', e)      # raised at call time unless an override takes the call
        if b is not None:
            return (key, sk, 'body', b)
        f = MODELS.get(sk)
        if f is not None:
            return (key, sk, 'model', f)
        if key[0] == 'trait':
            f = MODELS.get('<* as %s>::%s' % (key[2], key[3]))
            if f is not None:
                return (key, sk, 'model', f)
            return (key, sk, 'dyn', None)
        return (key, sk, 'none', None)

    def dyn_dispatch(self, key, raw, args):
        if not args:
            return NotImplemented
        v = args[0]
        depth = 0
        while isinstance(v, Ref) and depth < 4:
            v = v.cell.v
            depth += 1
        if isinstance(v, Native):
            return v.mcall(self, key[2], key[3], args)
        if isinstance(v, Agg) and v.ty:
            c = self.prog.traitimpl.get((v.ty, key[2], key[3]))
            if c:
                return self.run(self.prog.pick(c, raw), args)
            f = MODELS.get('<%s as %s>::%s' % (v.ty, key[2], key[3]))
            if f:
                return f(self, key, raw, args)
        return NotImplemented

    def call_value(self, f, args):
        """call a closure / fn item with a python list of argument values"""
        if isinstance(f, Ref):
            f = f.cell.v
        if isinstance(f, Closure):
            b = self.prog.closures.get(f.key)
            if b is None:
                raise Unsupported('closure body %s' % f.key)
            p1 = b.param_tys[0]
            env = Ref(Cell(f)) if p1.startswith('&') else f
            return self.run(b, [env] + list(args))
        if isinstance(f, FnItem):
            return self.call(f.path, list(args))
        if isinstance(f, PyFn):
            return f.fn(self, *args)
        raise Unsupported('call of %r' % (f,))

    def run(self, body, args):
        if self.depth > 60000:
            raise Unsupported('call depth')
        self.depth += 1
        try:
            return self._run(body, args)
        except Unsupported as e:
            if not getattr(e, 'located', False):
                e.located = True
                e.args = ('%s  [in %s %s]' % (e.args[0] if e.args else '', body.name, self.cur_bb),)
            raise
        finally:
            self.depth -= 1

    def _run(self, body, args):
        frame = {'__body__': body}
        if len(args) != len(body.params):
            raise Unsupported('arity mismatch calling %s: %d args' % (body.name, len(args)))
        for p, a in zip(body.params, args):
            frame[p] = Cell(a)
        bb = 'bb0'
        trace = self.trace
        while True:
            self.nblocks += 1
            if self.nblocks > self.max_blocks:
                raise Unsupported('block budget exhausted')
            stmts, term = body.block(bb)
            self.cur_bb = bb
            if trace is not None:
                trace.append((body.name, bb))
            for st in stmts:
                if st[0] == 'assign':
                    v = self.rvalue(st[2], frame)
                    self.place(st[1], frame).v = v
                elif st[0] == 'setdiscr':
                    c = self.place(st[1], frame)
                    if isinstance(c.v, Closure):
                        c.v.state = st[2]
                    else:
                        if c.v is None:
                            c.v = Agg(None, [])
                        c.v.variant = st[2]
            k = term[0]
            if k == 'goto':
                bb = term[1]
            elif k == 'switch':
                v = self.operand(term[1], frame)
                nxt = None
                if is_bool(v):
                    # arms compare against 0/1
                    for val, target in term[2]:
                        c = b_not(v) if val == 0 else v
                        if self.branch(c):
                            nxt = target
                            break
                else:
                    t = v.t
                    if isinstance(t, int):
                        for val, target in term[2]:
                            if t == val:
                                nxt = target
                                break
                    else:
                        for val, target in term[2]:
                            if self.branch(t == val):
                                nxt = target
                                break
                if nxt is None:
                    nxt = term[3]
                    if nxt is None:
                        raise Unsupported('switch fell through without otherwise')
                bb = nxt
            elif k == 'call':
                _, dest, callee, aops, ret = term
                argv = [self.operand(a, frame) for a in aops]
                r = self.call(callee, argv, frame)
                if ret is None:
                    raise Unsupported('diverging call %s returned' % callee)
                self.place(dest, frame).v = r
                bb = ret
            elif k == 'return':
                c = frame.get('_0')
                return c.v if c is not None and c.v is not None else UNIT
            elif k == 'drop':
                self.drop_value(self.place(term[1], frame))
                bb = term[2]
            elif k == 'assert':
                _, neg, cop, msg, target = term
                if self.mode == 'release' and OVERFLOW_ASSERT.match(msg):
                    bb = target
                    continue
                c = self.operand(cop, frame)
                if neg:
                    c = b_not(c)
                if not self.branch(c):
                    raise Panic('assert failed: %s in %s' % (msg[:60], body.name))
                bb = target
            elif k == 'callptr':
                _, dest, fop, aops, ret = term
                f = self.operand(fop, frame)
                argv = [self.operand(a, frame) for a in aops]
                r = self.call_value(f, argv)
                self.place(dest, frame).v = r
                bb = ret
            elif k == 'unreachable':
                raise Unsupported('unreachable executed in %s %s' % (body.name, bb))
            elif k == 'yield':
                raise Unsupported('yield terminator (coroutine not lowered)')
            else:
                raise Unsupported('terminator %r' % (term,))

    def drop_value(self, cell):
        v = cell.v
        if isinstance(v, Agg):
            if v.ty in self.prog.drop_types:
                c = self.prog.traitimpl.get((v.ty, 'Drop', 'drop'))
                self.run(c[0], [Ref(cell)])
            for f in v.fields:
                if isinstance(f.v, (Agg, VecV)):
                    self.drop_value(f)
        elif isinstance(v, VecV):
            for c in v.cells:
                if isinstance(c.v, (Agg, VecV)):
                    self.drop_value(c)
        elif isinstance(v, Closure) and getattr(v, 'state', None) is not None:
            # dropping a suspended coroutine drops its live locals; handled by checks that need it
            h = self.overrides.get('drop_coroutine')
            if h:
                h(self, v)


class BoxUninit(Ref):
    """Box<MaybeUninit<T>> as produced by the expansion of vec![..]"""
    __slots__ = ()

    def __init__(self):
        self.cell = TransCell()


class PyFn:
    """python callable usable where a Rust closure / fn is expected"""
    def __init__(self, fn):
        self.fn = fn


CONST_MODELS = {}
ADT_MODELS = {}


# ------------------------------------------------------------------------------------------ exploration driver
class Stats:
    def __init__(self):
        self.paths = self.queries = self.blocks = self.panics = self.infeasible = 0
        self.solver_s = 0.0
        self.t0 = time.time()

    def add(self, it):
        self.queries += it.nq
        self.blocks += it.nblocks
        self.solver_s += it.solver_s

    def as_dict(self):
        return dict(paths=self.paths, queries=self.queries, mir_blocks=self.blocks, panics=self.panics,
                    infeasible=self.infeasible, solver_s=round(self.solver_s, 2))


def explore(prog, scenario, mode='dev', stats=None, max_paths=None, setup=None, on_panic=None, prefixes=None):
    """Run `scenario(it)` once per feasible path.  `scenario` builds its inputs, calls into MIR via `it`,
    and performs its own property queries; it returns a value collected in the result list."""
    stats = stats or Stats()
    work = [list(p) for p in prefixes] if prefixes else [[]]
    results = []
    while work:
        dec = work.pop()
        it = Interp(prog, dec, mode)
        if setup:
            setup(it)
        try:
            r = scenario(it)
            results.append(r)
            stats.paths += 1
        except Infeasible:
            stats.infeasible += 1
        except Panic as e:
            stats.panics += 1
            if on_panic is None:
                raise
            on_panic(it, e)
        finally:
            stats.add(it)
        work.extend(it.pending)
        if max_paths and stats.paths >= max_paths:
            raise Unsupported('path budget exhausted')
    return results
