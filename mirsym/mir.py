"""Parser for rustc `-Zunpretty=mir` text.

Produces Body objects whose statements/terminators are parsed lazily (and cached) into small tuples.
Nothing here is specific to the code base being analysed.
"""
import re

INT_TYS = {'u8': 8, 'u16': 16, 'u32': 32, 'u64': 64, 'u128': 128, 'usize': 64,
           'i8': 8, 'i16': 16, 'i32': 32, 'i64': 64, 'i128': 128, 'isize': 64, 'u256': 256}


class ParseError(Exception):
    pass


OPEN = '([{<'
CLOSE = ')]}>'


def scan_top(s, start=0):
    """Yield (index, char, depth) for every character that is outside string/char literals; depth is the
    bracket depth *before* the character is applied."""
    i, n, depth = start, len(s), 0
    while i < n:
        c = s[i]
        if c == '"':
            j = i + 1
            while j < n and s[j] != '"':
                j += 2 if s[j] == '\\' else 1
            i = j + 1
            continue
        if c == '-' and s[i + 1:i + 2] == '>':
            i += 2
            continue
        if c == '=' and s[i + 1:i + 2] == '>':
            i += 2
            continue
        if c == "'" and i + 2 < n:
            # char literal 'x' or '\n' (lifetimes 'a have no closing quote right after)
            if s[i + 1] == '\\':
                j = s.find("'", i + 2)
                if j != -1 and j - i <= 12:
                    i = j + 1
                    continue
            elif s[i + 2] == "'":
                i += 3
                continue
        yield i, c, depth
        if c in OPEN:
            depth += 1
        elif c in CLOSE:
            depth -= 1
        i += 1


def split_top(s, sep=','):
    out, last = [], 0
    for i, c, d in scan_top(s):
        if c == sep and d == 0:
            out.append(s[last:i].strip())
            last = i + 1
    tail = s[last:].strip()
    if tail:
        out.append(tail)
    return out


def match_close(s, open_idx):
    """index of the bracket closing the one at open_idx"""
    for i, c, d in scan_top(s, open_idx):
        if c in CLOSE and d == 1:
            return i
    raise ParseError('unbalanced: %r' % s)


def strip_generics(s):
    """remove every <...> group (and ::<...>) from a path string"""
    out, depth = [], 0
    i = 0
    while i < len(s):
        c = s[i]
        if c == '-' and s[i + 1:i + 2] == '>':
            if depth == 0:
                out.append('->')
            i += 2
            continue
        if c == '<':
            depth += 1
        elif c == '>':
            depth -= 1
        elif depth == 0:
            out.append(c)
        i += 1
    r = ''.join(out)
    return r.replace('::::', '::').rstrip(':')


class Body:
    __slots__ = ('name', 'params', 'param_tys', 'ret', 'locals', 'blocks', 'header', 'kind', 'line', '_parsed',
                 'nlocals')

    def __init__(self, name, params, param_tys, ret, header, kind, line):
        self.name, self.params, self.param_tys, self.ret = name, params, param_tys, ret
        self.header, self.kind, self.line = header, kind, line
        self.locals = {}
        self.blocks = {}
        self._parsed = {}

    def block(self, bb):
        p = self._parsed.get(bb)
        if p is None:
            lines = self.blocks[bb]
            stmts = [parse_stmt(l) for l in lines[:-1]]
            stmts = [s for s in stmts if s is not None]
            p = self._parsed[bb] = (stmts, parse_term(lines[-1]))
        return p

    def __repr__(self):
        return '<Body %s @%d>' % (self.name, self.line)


HEADER_RE = re.compile(r'^fn (.*) \{$')


def parse_file(path):
    """returns (bodies: list[Body], consts: dict name->const text)"""
    lines = open(path).read().split('\n')
    bodies, consts = [], {}
    i, n = 0, len(lines)
    while i < n:
        l = lines[i]
        kind = None
        if l.startswith('fn ') and l.endswith('{'):
            kind = 'fn'
            h = l[3:-2]
            p = h.index('(')
            # name may itself contain '(' only inside <impl at ...> (never) -> first '(' starts params
            name = h[:p]
            q = match_close(h, p)
            params_s = h[p + 1:q]
            ret = h[q + 1:].strip()
            ret = ret[2:].strip() if ret.startswith('->') else '()'
            params, ptys = [], []
            for ps in split_top(params_s):
                a, b = ps.split(': ', 1)
                params.append(a.strip())
                ptys.append(b.strip())
            body = Body(name, params, ptys, ret, l, kind, i + 1)
        else:
            m = re.match(r'^(const|static mut|static) (.*) = \{$', l)
            if m:
                rest = m.group(2)
                cut = None
                for k, c, d in scan_top(rest):
                    if d == 0 and c == ':' and rest[k + 1:k + 2] == ' ':
                        cut = k
                        break
                if cut is None:
                    i += 1
                    continue
                nm, ty = rest[:cut], rest[cut + 2:]
                kind = 'promoted' if 'promoted[' in nm else m.group(1)
                body = Body(nm, [], [], ty, l, kind, i + 1)
            else:
                m = re.match(r'^const (.*?): (.*) = const (.*);$', l)
                if m:
                    consts[m.group(1)] = 'const ' + m.group(3)
                i += 1
                continue
        j = i + 1
        cur = None
        while not lines[j].startswith('}'):
            b = lines[j]
            if cur is None:
                mb = re.match(r'^    (bb\d+)( \(cleanup\))?: \{$', b)
                if mb:
                    cur = mb.group(1)
                    body.blocks[cur] = []
                else:
                    ml = re.match(r'^\s+let (mut )?(_\d+): (.*);$', b)
                    if ml:
                        body.locals[ml.group(2)] = ml.group(3)
            elif b.startswith('    }'):
                cur = None
            else:
                t = b.strip()
                if t:
                    body.blocks[cur].append(t)
            j += 1
        bodies.append(body)
        i = j + 1
    return bodies, consts


# ------------------------------------------------------------------ places / operands / rvalues

def skip_type(s, i):
    """s[i:] starts with a type that ends at the first unbalanced ')' ; returns index of that ')'"""
    for k, c, d in scan_top(s, i):
        if c == ')' and d == 0:
            return k
    raise ParseError('type does not end: %r' % s[i:])


def parse_place_at(s, i):
    """returns (place, next_index); place = (local, projs)"""
    if s.startswith('(*', i):
        (loc, pr), k = parse_place_at(s, i + 2)
        if s[k] != ')':
            raise ParseError('deref close: %r' % s[i:])
        res, k = (loc, pr + (('deref',),)), k + 1
    elif s[i] == '(':
        (loc, pr), k = parse_place_at(s, i + 1)
        if s.startswith(' as ', k):
            e = s.index(')', k)
            res, k = (loc, pr + (('downcast', s[k + 4:e]),)), e + 1
        elif s[k] == '.':
            m = re.compile(r'\.(\d+): ').match(s, k)
            e = skip_type(s, m.end())
            res, k = (loc, pr + (('field', int(m.group(1))),)), e + 1
        else:
            raise ParseError('place: %r' % s[i:])
    else:
        m = re.compile(r'_\d+').match(s, i)
        if not m:
            raise ParseError('place: %r' % s[i:])
        res, k = (m.group(0), ()), m.end()
    while k < len(s) and s[k] == '[':
        e = s.index(']', k)
        inner = s[k + 1:e]
        loc, pr = res
        m = re.match(r'^(_\d+)$', inner)
        if m:
            res = (loc, pr + (('index', m.group(1)),))
        else:
            m = re.match(r'^(-?)(\d+) of (\d+)$', inner)
            if m:
                res = (loc, pr + (('constindex', int(m.group(2)), m.group(1) == '-', int(m.group(3))),))
            else:
                m = re.match(r'^(\d+):(-?)(\d*)$', inner)
                if not m:
                    raise ParseError('index: %r' % inner)
                res = (loc, pr + (('subslice', int(m.group(1)), int(m.group(3) or 0), m.group(2) == '-'),))
        k = e + 1
    return res, k


def parse_place(s):
    p, k = parse_place_at(s, 0)
    if k != len(s):
        raise ParseError('place trailing %r in %r' % (s[k:], s))
    return p


INT_RE = re.compile(r'^(-?\d+)_(u8|u16|u32|u64|u128|usize|i8|i16|i32|i64|i128|isize)$')
FLOAT_RE = re.compile(r'^(-?[\d.]+(?:[eE][+-]?\d+)?)(f32|f64)$')


def unescape(body):
    return bytes(body, 'utf-8').decode('unicode_escape').encode('latin-1', 'ignore') if '\\' in body else body.encode()


def parse_const(c):
    m = INT_RE.match(c)
    if m:
        return ('int', int(m.group(1)), m.group(2))
    if c == 'true':
        return ('bool', True)
    if c == 'false':
        return ('bool', False)
    if c == '()':
        return ('unit',)
    if c.startswith('"') and c.endswith('"'):
        return ('str', c[1:-1])
    if c.startswith('b"') and c.endswith('"'):
        return ('bytes', c[2:-1])
    if c.startswith("'") and c.endswith("'"):
        return ('char', c[1:-1])
    m = FLOAT_RE.match(c)
    if m:
        return ('float', float(m.group(1)), m.group(2))
    if c.startswith('ZeroSized: '):
        return ('zst', c[11:])
    m = re.match(r'^(.*)::promoted\[(\d+)\]$', c)
    if m:
        return ('promoted', m.group(1), int(m.group(2)))
    if c.startswith('{alloc') or c.startswith('alloc'):
        return ('alloc', c)
    return ('named', c)


def parse_operand(s):
    s = s.strip()
    if s.startswith('no_retag '):
        s = s[9:]
    if s.startswith('copy '):
        return ('copy', parse_place(s[5:]))
    if s.startswith('move '):
        return ('move', parse_place(s[5:]))
    if s.startswith('const '):
        return ('const', parse_const(s[6:]))
    if re.match(r'^[A-Za-z_<{]', s) and not s.startswith('/*'):
        return ('const', ('fnitem', s))
    raise ParseError('operand %r' % s)


BINOPS = {'Add', 'Sub', 'Mul', 'Div', 'Rem', 'BitXor', 'BitAnd', 'BitOr', 'Shl', 'Shr', 'Eq', 'Lt', 'Le', 'Ne', 'Ge',
          'Gt', 'Cmp', 'Offset', 'AddWithOverflow', 'SubWithOverflow', 'MulWithOverflow', 'AddUnchecked',
          'SubUnchecked', 'MulUnchecked', 'ShlUnchecked', 'ShrUnchecked'}
UNOPS = {'Not', 'Neg', 'PtrMetadata'}

CAST_RE = re.compile(r'^(.*) as (.*) \(([A-Za-z]+(?:\([^)]*\))?(?:, \w+)?)\)$')
FUNC_RE = re.compile(r'^([A-Za-z]+)\((.*)\)$')


def parse_rvalue(s):
    s = s.strip()
    m = FUNC_RE.match(s)
    if m:
        f = m.group(1)
        if f in BINOPS:
            a, b = split_top(m.group(2))
            return ('binop', f, parse_operand(a), parse_operand(b))
        if f in UNOPS:
            return ('unop', f, parse_operand(m.group(2)))
        if f == 'discriminant':
            return ('discriminant', parse_place(m.group(2)))
        if f == 'Len':
            return ('len', parse_place(m.group(2)))
        if f == 'CopyForDeref':
            return ('use', ('copy', parse_place(m.group(2))))
        if f == 'ShallowInitBox':
            return ('use', parse_operand(split_top(m.group(2))[0]))
    if s.startswith('&'):
        rest = s[1:]
        kind = 'shared'
        for pre, k in (('mut ', 'mut'), ('raw const ', 'raw'), ('raw mut ', 'rawmut'), ('fake shallow ', 'shared'),
                       ('fake ', 'shared')):
            if rest.startswith(pre):
                rest, kind = rest[len(pre):], k
                break
        if rest.startswith('/*tls*/ '):
            return ('tlsref', rest[8:])
        return ('ref', kind, parse_place(rest))
    if s.startswith(('copy ', 'move ', 'no_retag ', 'const ')):
        m = CAST_RE.match(s)
        if m and ' as ' in s:
            # make sure the ' as ' is top level and the left part is a plain operand
            try:
                op = parse_operand(m.group(1))
                return ('cast', op, m.group(2), m.group(3))
            except ParseError:
                pass
        return ('use', parse_operand(s))
    if s.startswith('['):
        e = match_close(s, 0)
        inner = s[1:e]
        parts = split_top(inner, ';')
        if len(parts) == 2 and e == len(s) - 1:
            return ('repeat', parse_operand(parts[0]), parts[1].strip())
        return ('array', [parse_operand(x) for x in split_top(inner)])
    if s.startswith('(') and s.endswith(')') and match_close(s, 0) == len(s) - 1:
        inner = s[1:-1]
        return ('tuple', [parse_operand(x) for x in split_top(inner)])
    if s.startswith('{closure@') or s.startswith('{coroutine@') or s.startswith('{async '):
        e = match_close(s, 0)
        head = s[:e + 1]
        rest = s[e + 1:].strip()
        fields = []
        if rest.startswith('{'):
            for x in split_top(rest[1:-1]):
                fields.append(parse_operand(x.split(': ', 1)[1]))
        return ('closure', head, fields)
    # ADT aggregate:  path::Name { f: op, .. }  |  path::Name(op, ..)  |  path::Name
    # find top-level ' {' or '(' at the end
    for i, c, d in scan_top(s):
        if d == 0 and c == '{' and i > 0 and s[i - 1] == ' ':
            path = s[:i - 1]
            fields = []
            for x in split_top(s[i + 1:s.rindex('}')]):
                fn, fv = x.split(': ', 1)
                fields.append((fn.strip(), parse_operand(fv)))
            return ('adt', path, 'named', fields)
        if d == 0 and c == '(' and i > 0:
            e = match_close(s, i)
            if e == len(s) - 1:
                return ('adt', s[:i], 'tuple', [parse_operand(x) for x in split_top(s[i + 1:e])])
    return ('adt', s, 'unit', [])


def parse_stmt(l):
    if l.endswith(';'):
        l = l[:-1]
    if l.startswith(('StorageLive', 'StorageDead', 'ConstEvalCounter', 'Coverage', 'nop', 'FakeRead', 'PlaceMention',
                     'Retag', 'AscribeUserType', 'BackwardIncompatibleDropHint')):
        return None
    if l.startswith('discriminant('):
        m = re.match(r'^discriminant\((.*)\) = (\d+)$', l)
        return ('setdiscr', parse_place(m.group(1)), int(m.group(2)))
    if l.startswith('Deinit('):
        return None
    if l.startswith('assume('):
        return None
    if l.startswith('copy_nonoverlapping('):
        raise ParseError('copy_nonoverlapping')
    # assignment: place = rvalue   (place ends at first top-level ' = ')
    idx = None
    for i, c, d in scan_top(l):
        if d == 0 and c == '=' and l[i - 1] == ' ' and l[i + 1] == ' ':
            idx = i
            break
    if idx is None:
        raise ParseError('stmt %r' % l)
    return ('assign', parse_place(l[:idx - 1]), parse_rvalue(l[idx + 2:]))


TARGETS_RE = re.compile(r'^\[(.*)\]$')


def parse_term(t):
    t0 = t
    if t.endswith(';'):
        t = t[:-1]
    if t == 'return':
        return ('return',)
    if t == 'unreachable':
        return ('unreachable',)
    if t == 'resume' or t.startswith('resume') or t == 'terminate' or t.startswith('terminate'):
        return ('resume',)
    if t == 'coroutine_drop':
        return ('return',)
    m = re.match(r'^goto -> (bb\d+)$', t)
    if m:
        return ('goto', m.group(1))
    m = re.match(r'^(falseEdge|falseUnwind) -> \[real: (bb\d+)', t)
    if m:
        return ('goto', m.group(2))
    if t.startswith('switchInt('):
        e = match_close(t, 9)
        op = parse_operand(t[10:e])
        arms = []
        other = None
        for a in t[e + 1:].strip()[4:-1].split(', '):
            k, v = a.split(': ')
            if k == 'otherwise':
                other = v
            else:
                arms.append((int(k), v))
        return ('switch', op, arms, other)
    if t.startswith('drop('):
        e = match_close(t, 4)
        m = re.search(r'return: (bb\d+)', t[e:])
        return ('drop', parse_place(t[5:e]), m.group(1))
    if t.startswith('assert('):
        e = match_close(t, 6)
        inner = split_top(t[7:e])
        c = inner[0]
        neg = c.startswith('!')
        if neg:
            c = c[1:]
        m = re.search(r'success: (bb\d+)', t[e:])
        return ('assert', neg, parse_operand(c), inner[1] if len(inner) > 1 else '', m.group(1))
    m = re.match(r'^yield\((.*)\) -> \[resume: (bb\d+)', t)
    if m:
        return ('yield', parse_operand(m.group(1)), m.group(2))
    # call:  DEST = CALLEE(ARGS) -> TARGETS
    idx = None
    for i, c, d in scan_top(t):
        if d == 0 and c == '=' and t[i - 1] == ' ' and t[i + 1] == ' ':
            idx = i
            break
    if idx is None:
        raise ParseError('terminator %r' % t0)
    dest = parse_place(t[:idx - 1])
    rhs = t[idx + 2:]
    # the argument group is the last top-level (...) group followed by ' -> ' or end
    arg_open = arg_close = None
    last_open = None
    for i, c, d in scan_top(rhs):
        if c == '(' and d == 0:
            last_open = i
        elif c == ')' and d == 1 and last_open is not None:
            rest = rhs[i + 1:]
            if rest == '' or rest.startswith(' -> '):
                arg_open, arg_close = last_open, i
                break
    if arg_open is None:
        raise ParseError('call %r' % t0)
    callee = rhs[:arg_open].strip()
    args = [parse_operand(a) for a in split_top(rhs[arg_open + 1:arg_close])]
    tail = rhs[arg_close + 1:]
    m = re.search(r'return: (bb\d+)', tail)
    ret = m.group(1) if m else None
    if callee.startswith(('move _', 'copy _')):
        return ('callptr', dest, parse_operand(callee), args, ret)
    return ('call', dest, callee, args, ret)
