"""Models of std / core items.  Each model states the contract it assumes in its docstring or name;
the set of models actually invoked by a check is recorded in its evidence file (Interp.used_models)."""
import re
import z3
from .interp import (model, re_model, MODELS, CONST_MODELS, ADT_MODELS, Cell, SInt, Agg, Ref, VecV, SliceRef, StrV,
                     Closure, FnItem, Opaque, UNIT, Native, Panic, Unsupported, PyFn, some, none, ok, err, tup, scal,
                     clone, deep_clone, BoxUninit, wrap, rng, is_bool, b_and, b_or, b_not, i_ite, zt, zb, type_head, callee_key, sym_mul)
from .mir import INT_TYS, strip_generics, split_top


def deref(v, n=8):
    while isinstance(v, Ref) and n:
        v = v.cell.v
        n -= 1
    return v


def as_slice(v):
    """view any sequence-ish value (Vec, &Vec, slice, array, &array) as a SliceRef"""
    v0 = v
    v = deref(v)
    if isinstance(v, SliceRef):
        return v
    if isinstance(v, VecV):
        return SliceRef(v, 0, len(v.cells))
    if isinstance(v, Agg) and v.ty == '[]':
        return SliceRef(VecV(v.fields), 0, len(v.fields))
    raise Unsupported('as_slice of %r' % (v0,))


# ================================================================= iterators
class Iter(Native):
    ty = 'Iter'

    def next(self, it):
        raise NotImplementedError

    def next_back(self, it):
        raise Unsupported('next_back on %s' % type(self).__name__)

    def mcall(self, it, trait, method, args):
        f = MODELS.get('<* as %s>::%s' % (trait, method))
        if f is None:
            raise Unsupported('iterator method %s::%s' % (trait, method))
        return f(it, None, '', args)


class SliceIter(Iter):
    def __init__(self, sl, by_ref=True):
        self.vec, self.pos, self.end, self.by_ref = sl.vec, sl.lo, sl.hi, by_ref

    def next(self, it):
        if self.pos >= self.end:
            return None
        c = self.vec.cells[self.pos]
        self.pos += 1
        return Ref(c) if self.by_ref else c.v

    def next_back(self, it):
        if self.pos >= self.end:
            return None
        self.end -= 1
        c = self.vec.cells[self.end]
        return Ref(c) if self.by_ref else c.v

    def remaining(self):
        return self.end - self.pos


class ListIter(Iter):
    """iterator over a python list of values"""
    def __init__(self, vals):
        self.vals, self.pos, self.end = vals, 0, len(vals)

    def next(self, it):
        if self.pos >= self.end:
            return None
        v = self.vals[self.pos]
        self.pos += 1
        return v

    def next_back(self, it):
        if self.pos >= self.end:
            return None
        self.end -= 1
        return self.vals[self.end]

    def remaining(self):
        return self.end - self.pos


class Adaptor(Iter):
    def __init__(self, inner, *extra):
        self.inner = Cell(inner)
        self.extra = extra


def inext(it, cell_or_iter):
    """advance an iterator value (python Iter, or crate type implementing Iterator); returns value or None"""
    cell = cell_or_iter if isinstance(cell_or_iter, Cell) else Cell(cell_or_iter)
    v = cell.v
    if isinstance(v, Ref):
        return inext(it, v.cell)
    if isinstance(v, Iter):
        return v.next(it)
    if isinstance(v, Agg) and v.ty in ('Range', 'RangeInclusive'):
        cell.v = v = into_iter(it, v)
        return v.next(it)
    if isinstance(v, Agg) and v.ty:
        c = it.prog.traitimpl.get((v.ty, 'Iterator', 'next'))
        if c:
            o = it.run(c[0], [Ref(cell)])
            return o.fields[0].v if o.variant == 1 else None
    raise Unsupported('not an iterator: %r' % (v,))


def inext_back(it, cell):
    v = cell.v
    if isinstance(v, Ref):
        return inext_back(it, v.cell)
    if isinstance(v, Iter):
        return v.next_back(it)
    raise Unsupported('not a double-ended iterator: %r' % (v,))


class EnumIter(Adaptor):
    def __init__(self, inner):
        super().__init__(inner)
        self.n = 0

    def next(self, it):
        x = inext(it, self.inner)
        if x is None:
            return None
        r = tup(SInt(self.n, 'usize'), x)
        self.n += 1
        return r


class MapIter(Adaptor):
    def next(self, it):
        x = inext(it, self.inner)
        if x is None:
            return None
        return it.call_value(self.extra[0], [x])

    def next_back(self, it):
        x = inext_back(it, self.inner)
        if x is None:
            return None
        return it.call_value(self.extra[0], [x])


class FilterIter(Adaptor):
    def next(self, it):
        while True:
            x = inext(it, self.inner)
            if x is None:
                return None
            keep = it.call_value(self.extra[0], [Ref(Cell(x))])
            if it.branch(keep):
                return x


class FilterMapIter(Adaptor):
    def next(self, it):
        while True:
            x = inext(it, self.inner)
            if x is None:
                return None
            o = it.call_value(self.extra[0], [x])
            if o.variant == 1:
                return o.fields[0].v


class TakeIter(Adaptor):
    def next(self, it):
        n = self.extra[0]
        if n[0] <= 0:
            return None
        n[0] -= 1
        return inext(it, self.inner)


class SkipIter(Adaptor):
    def next(self, it):
        n = self.extra[0]
        while n[0] > 0:
            n[0] -= 1
            if inext(it, self.inner) is None:
                return None
        return inext(it, self.inner)


class TakeWhileIter(Adaptor):
    done = False

    def next(self, it):
        if self.done:
            return None
        x = inext(it, self.inner)
        if x is None:
            return None
        if it.branch(it.call_value(self.extra[0], [Ref(Cell(x))])):
            return x
        self.done = True
        return None


class ChainIter(Iter):
    def __init__(self, a, b):
        self.a, self.b = Cell(a), Cell(b)
        self.a_done = False

    def next(self, it):
        if not self.a_done:
            x = inext(it, self.a)
            if x is not None:
                return x
            self.a_done = True
        return inext(it, self.b)


class ClonedIter(Adaptor):
    def next(self, it):
        x = inext(it, self.inner)
        if x is None:
            return None
        return deep_clone(deref(x, 1))

    def next_back(self, it):
        x = inext_back(it, self.inner)
        if x is None:
            return None
        return deep_clone(deref(x, 1))


class RevIter(Adaptor):
    def next(self, it):
        return inext_back(it, self.inner)

    def next_back(self, it):
        return inext(it, self.inner)


class ZipIter(Iter):
    def __init__(self, a, b):
        self.a, self.b = Cell(a), Cell(b)

    def next(self, it):
        x = inext(it, self.a)
        if x is None:
            return None
        y = inext(it, self.b)
        if y is None:
            return None
        return tup(x, y)


class FlatMapIter(Adaptor):
    cur = None

    def next(self, it):
        while True:
            if self.cur is not None:
                x = inext(it, self.cur)
                if x is not None:
                    return x
                self.cur = None
            o = inext(it, self.inner)
            if o is None:
                return None
            sub = it.call_value(self.extra[0], [o]) if self.extra else o
            self.cur = Cell(into_iter(it, sub))


class PeekIter(Adaptor):
    peeked = None   # None = nothing peeked ; else python list [value or None]

    def next(self, it):
        if self.peeked is not None:
            v = self.peeked[0]
            self.peeked = None
            return v
        return inext(it, self.inner)

    def peek(self, it):
        if self.peeked is None:
            self.peeked = [inext(it, self.inner)]
        return self.peeked[0]


def into_iter(it, v):
    if isinstance(v, Iter):
        return v
    if isinstance(v, VecV):
        return ListIter([c.v for c in v.cells])
    if isinstance(v, SliceRef):
        return SliceIter(v)
    if isinstance(v, Ref):
        t = v.cell.v
        if isinstance(t, VecV):
            return SliceIter(SliceRef(t, 0, len(t.cells)))
        if isinstance(t, Agg) and t.ty == '[]':
            return SliceIter(as_slice(t))
        if isinstance(t, Iter):
            return v
        h = INTO_ITER_HOOKS.get(type(t))
        if h:
            return h(it, t, True)
    if isinstance(v, Agg) and v.ty == '[]':
        return ListIter([c.v for c in v.fields])
    if isinstance(v, Agg) and v.ty == 'Option':
        return ListIter([v.fields[0].v] if v.variant == 1 else [])
    h = INTO_ITER_HOOKS.get(type(v))
    if h:
        return h(it, v, False)
    if isinstance(v, Agg):
        return v   # a crate type implementing Iterator
    raise Unsupported('into_iter of %r' % (v,))


INTO_ITER_HOOKS = {}


def opt(v):
    return none() if v is None else some(v)


@model('<* as Iterator>::next')
def _it_next(it, key, raw, args):
    return opt(inext(it, args[0].cell))


@model('<* as DoubleEndedIterator>::next_back')
def _it_next_back(it, key, raw, args):
    return opt(inext_back(it, args[0].cell))


@model('<* as IntoIterator>::into_iter')
def _into_iter(it, key, raw, args):
    return into_iter(it, args[0])


@model('<* as Iterator>::enumerate')
def _enumerate(it, key, raw, args):
    return EnumIter(args[0])


@model('<* as Iterator>::map')
def _map(it, key, raw, args):
    return MapIter(args[0], args[1])


@model('<* as Iterator>::filter')
def _filter(it, key, raw, args):
    return FilterIter(args[0], args[1])


@model('<* as Iterator>::filter_map')
def _filter_map(it, key, raw, args):
    return FilterMapIter(args[0], args[1])


@model('<* as Iterator>::take')
def _take(it, key, raw, args):
    n = it.concretize(args[1], 0, 1 << 20)
    return TakeIter(args[0], [n])


@model('<* as Iterator>::skip')
def _skip(it, key, raw, args):
    n = it.concretize(args[1], 0, 1 << 20)
    return SkipIter(args[0], [n])


@model('<* as Iterator>::take_while')
def _take_while(it, key, raw, args):
    return TakeWhileIter(args[0], args[1])


@model('<* as Iterator>::chain')
def _chain(it, key, raw, args):
    return ChainIter(args[0], into_iter(it, args[1]))


@model('<* as Iterator>::cloned', '<* as Iterator>::copied')
def _cloned(it, key, raw, args):
    return ClonedIter(args[0])


@model('<* as Iterator>::rev')
def _rev(it, key, raw, args):
    return RevIter(args[0])


@model('<* as Iterator>::zip')
def _zip(it, key, raw, args):
    return ZipIter(args[0], into_iter(it, args[1]))


@model('<* as Iterator>::flat_map')
def _flat_map(it, key, raw, args):
    return FlatMapIter(args[0], args[1])


@model('<* as Iterator>::flatten')
def _flatten(it, key, raw, args):
    return FlatMapIter(args[0])


@model('<* as Iterator>::peekable')
def _peekable(it, key, raw, args):
    return PeekIter(args[0])


@model('Peekable::peek')
def _peek(it, key, raw, args):
    p = args[0].cell.v
    v = p.peek(it)
    return none() if v is None else some(Ref(Cell(v)))


def drain(it, iv):
    out = []
    c = Cell(iv)
    while True:
        x = inext(it, c)
        if x is None:
            return out
        out.append(x)


@model('<* as Iterator>::collect')
def _collect(it, key, raw, args):
    target = raw[raw.index('collect::<') + 10:] if 'collect::<' in raw else ''
    h = type_head(target[:-1]) if target else 'Vec'
    vals = drain(it, args[0])
    f = COLLECT_HOOKS.get(h)
    if f:
        return f(it, vals, target)
    if h == 'Vec':
        return VecV([Cell(v) for v in vals])
    if h in ('Result', 'Option'):
        # collect::<Result<Vec<_>,E>>
        good = []
        for v in vals:
            if (h == 'Result' and v.variant == 1) or (h == 'Option' and v.variant == 0):
                return v
            good.append(v.fields[0].v)
        inner = VecV([Cell(v) for v in good])
        return ok(inner) if h == 'Result' else some(inner)
    raise Unsupported('collect into %r' % target)


COLLECT_HOOKS = {}


@model('<* as Iterator>::sum')
def _sum(it, key, raw, args):
    m = re.search(r'sum::<(\w+)>', raw)
    ty = m.group(1) if m else None
    tot = None
    for x in drain(it, args[0]):
        x = deref(x)
        if tot is None:
            tot = SInt(0, x.ty)
        r = it.binop('AddWithOverflow', tot, x)
        if it.mode == 'dev':
            if it.branch(r.fields[1].v):
                raise Panic('overflow in Iterator::sum')
        tot = r.fields[0].v
    return tot if tot is not None else SInt(0, ty or 'usize')


@model('<* as Iterator>::count')
def _count(it, key, raw, args):
    return SInt(len(drain(it, args[0])), 'usize')


@model('<* as Iterator>::last')
def _last(it, key, raw, args):
    xs = drain(it, args[0])
    return some(xs[-1]) if xs else none()


@model('<* as Iterator>::nth')
def _nth(it, key, raw, args):
    n = it.concretize(args[1], 0, 1 << 20)
    x = None
    for _ in range(n + 1):
        x = inext(it, args[0].cell)
        if x is None:
            return none()
    return some(x)


@model('<* as Iterator>::for_each')
def _for_each(it, key, raw, args):
    for x in drain(it, args[0]):
        it.call_value(args[1], [x])
    return UNIT


@model('<* as Iterator>::fold')
def _fold(it, key, raw, args):
    acc = args[1]
    for x in drain(it, args[0]):
        acc = it.call_value(args[2], [acc, x])
    return acc


@model('<* as Iterator>::all')
def _all(it, key, raw, args):
    c = args[0].cell
    while True:
        x = inext(it, c)
        if x is None:
            return True
        if not it.branch(it.call_value(args[1], [x])):
            return False


@model('<* as Iterator>::any')
def _any(it, key, raw, args):
    c = args[0].cell
    while True:
        x = inext(it, c)
        if x is None:
            return False
        if it.branch(it.call_value(args[1], [x])):
            return True


@model('<* as Iterator>::find')
def _find(it, key, raw, args):
    c = args[0].cell
    while True:
        x = inext(it, c)
        if x is None:
            return none()
        if it.branch(it.call_value(args[1], [Ref(Cell(x))])):
            return some(x)


@model('<* as Iterator>::position')
def _position(it, key, raw, args):
    c = args[0].cell
    i = 0
    while True:
        x = inext(it, c)
        if x is None:
            return none()
        if it.branch(it.call_value(args[1], [x])):
            return some(SInt(i, 'usize'))
        i += 1


def _minmax(it, args, want_max, by_key=None):
    xs = drain(it, args[0])
    if not xs:
        return none()
    best = xs[0]
    bk = scal(deref(it.call_value(by_key, [Ref(Cell(best))]))) if by_key else scal(deref(best))
    for x in xs[1:]:
        k = scal(deref(it.call_value(by_key, [Ref(Cell(x))]))) if by_key else scal(deref(x))
        # std: max returns the last max element, min returns the first min element
        c = (k.t >= bk.t) if want_max else (k.t < bk.t)
        if it.branch(c):
            best, bk = x, k
    return some(best)


@model('<* as Iterator>::max')
def _max(it, key, raw, args):
    return _minmax(it, args, True)


@model('<* as Iterator>::min')
def _min(it, key, raw, args):
    return _minmax(it, args, False)


@model('<* as Iterator>::max_by_key')
def _max_by_key(it, key, raw, args):
    return _minmax(it, args, True, args[1])


@model('<* as Iterator>::min_by_key')
def _min_by_key(it, key, raw, args):
    return _minmax(it, args, False, args[1])


@model('<* as Iterator>::size_hint')
def _size_hint(it, key, raw, args):
    return tup(SInt(0, 'usize'), none())


@model('<* as Extend>::extend', 'Vec::extend')
def _extend(it, key, raw, args):
    v = deref(args[0])
    if not isinstance(v, VecV):
        raise Unsupported('extend on %r' % (v,))
    src = into_iter(it, args[1])
    for x in drain(it, src):
        v.cells.append(Cell(x))
    return UNIT


@model('iter::once', 'once')
def _once(it, key, raw, args):
    return ListIter([args[0]])


@model('iter::empty', 'empty')
def _empty(it, key, raw, args):
    return ListIter([])


@model('iter::repeat_n')
def _repeat_n(it, key, raw, args):
    n = it.concretize(args[1], 0, 1 << 20)
    return ListIter([deep_clone(args[0]) for _ in range(n)])


# ================================================================= Vec / slices
@model('Vec::new', 'Vec::with_capacity')
def _vec_new(it, key, raw, args):
    return VecV()


@model('Vec::len')
def _vec_len(it, key, raw, args):
    return SInt(len(deref(args[0]).cells), 'usize')


@model('Vec::is_empty')
def _vec_is_empty(it, key, raw, args):
    return len(deref(args[0]).cells) == 0


@model('Vec::push')
def _vec_push(it, key, raw, args):
    deref(args[0]).cells.append(Cell(args[1]))
    return UNIT


@model('Vec::pop')
def _vec_pop(it, key, raw, args):
    v = deref(args[0])
    return some(v.cells.pop().v) if v.cells else none()


@model('Vec::clear')
def _vec_clear(it, key, raw, args):
    del deref(args[0]).cells[:]
    return UNIT


@model('Vec::truncate')
def _vec_truncate(it, key, raw, args):
    n = it.concretize(args[1], 0, 1 << 20)
    del deref(args[0]).cells[n:]
    return UNIT


@model('Vec::insert')
def _vec_insert(it, key, raw, args):
    v = deref(args[0])
    i = it.concretize(args[1], 0, len(v.cells) + 1)
    if i is None:
        raise Panic('Vec::insert index out of bounds')
    v.cells.insert(i, Cell(args[2]))
    return UNIT


@model('Vec::remove')
def _vec_remove(it, key, raw, args):
    v = deref(args[0])
    i = it.concretize(args[1], 0, len(v.cells))
    if i is None:
        raise Panic('Vec::remove index out of bounds')
    return v.cells.pop(i).v


@model('Vec::swap_remove')
def _vec_swap_remove(it, key, raw, args):
    v = deref(args[0])
    i = it.concretize(args[1], 0, len(v.cells))
    if i is None:
        raise Panic('swap_remove index out of bounds')
    last = v.cells.pop()
    if i == len(v.cells):
        return last.v
    r = v.cells[i].v
    v.cells[i] = last
    return r


@model('Vec::resize')
def _vec_resize(it, key, raw, args):
    v = deref(args[0])
    n = it.concretize(args[1], 0, 1 << 20)
    if n <= len(v.cells):
        del v.cells[n:]
    else:
        while len(v.cells) < n:
            v.cells.append(Cell(deep_clone(args[2])))
    return UNIT


@model('Vec::split_off')
def _vec_split_off(it, key, raw, args):
    v = deref(args[0])
    n = it.concretize(args[1], 0, len(v.cells) + 1)
    if n is None:
        raise Panic('split_off out of bounds')
    tail = v.cells[n:]
    del v.cells[n:]
    return VecV(tail)


@model('Vec::append')
def _vec_append(it, key, raw, args):
    a, b = deref(args[0]), deref(args[1])
    a.cells.extend(b.cells)
    b.cells = []
    return UNIT


@model('Vec::extend_from_slice')
def _vec_extend_from_slice(it, key, raw, args):
    a = deref(args[0])
    for c in as_slice(args[1]).cells():
        a.cells.append(Cell(deep_clone(c.v)))
    return UNIT


@model('Vec::drain')
def _vec_drain(it, key, raw, args):
    v = deref(args[0])
    lo, hi = range_bounds(it, args[1], len(v.cells))
    out = [c.v for c in v.cells[lo:hi]]
    del v.cells[lo:hi]
    return ListIter(out)


@model('Vec::retain')
def _vec_retain(it, key, raw, args):
    v = deref(args[0])
    keep = []
    for c in v.cells:
        if it.branch(it.call_value(args[1], [Ref(c)])):
            keep.append(c)
    v.cells[:] = keep
    return UNIT


@model('Vec::as_slice', 'Vec::as_mut_slice', '<Vec as Deref>::deref', '<Vec as DerefMut>::deref_mut',
       '<Vec as AsRef>::as_ref', '<Vec as Borrow>::borrow', '<[T;N] as AsRef>::as_ref', 'impl#[T;N]::as_slice')
def _vec_deref(it, key, raw, args):
    return as_slice(args[0])


@model('<Vec as Index>::index', '<Vec as IndexMut>::index_mut', '<[T] as Index>::index', '<[T] as IndexMut>::index_mut',
       '<[T;N] as Index>::index', '<[T;N] as IndexMut>::index_mut')
def _vec_index(it, key, raw, args):
    sl = as_slice(args[0])
    idx = args[1]
    if isinstance(idx, SInt):
        k = it.concretize(idx, 0, len(sl))
        if k is None or k >= len(sl):
            raise Panic('index out of bounds')
        return Ref(sl.vec.cells[sl.lo + k])
    lo, hi = range_bounds(it, idx, len(sl))
    return SliceRef(sl.vec, sl.lo + lo, sl.lo + hi)


def range_bounds(it, r, n):
    """concrete (lo, hi) of a Range/RangeFrom/RangeTo/RangeFull/RangeInclusive value; panics when out of range"""
    r = deref(r)
    if not isinstance(r, Agg):
        raise Unsupported('range %r' % (r,))
    t = r.ty
    if t == 'Range':
        lo = it.concretize(r.f(0), 0, n + 1)
        hi = it.concretize(r.f(1), 0, n + 1)
    elif t == 'RangeFrom':
        lo, hi = it.concretize(r.f(0), 0, n + 1), n
    elif t == 'RangeTo':
        lo, hi = 0, it.concretize(r.f(0), 0, n + 1)
    elif t == 'RangeFull':
        lo, hi = 0, n
    elif t == 'RangeInclusive':
        lo = it.concretize(r.f(0), 0, n + 1)
        hi = it.concretize(r.f(1), 0, n)
        hi = None if hi is None else hi + 1
    elif t == 'RangeToInclusive':
        lo = 0
        hi = it.concretize(r.f(0), 0, n)
        hi = None if hi is None else hi + 1
    else:
        raise Unsupported('range type %s' % t)
    if lo is None or hi is None or lo > hi or hi > n:
        raise Panic('slice range out of bounds')
    return lo, hi


def _adt_range(name, n):
    def f(it, kind, fields):
        vals = [x[1] if kind == 'named' else x for x in fields]
        return Agg(name, [Cell(v) for v in vals])
    return f


for _n, _k in (('Range', 2), ('RangeFrom', 1), ('RangeTo', 1), ('RangeFull', 0), ('RangeToInclusive', 1)):
    ADT_MODELS[_n] = _adt_range(_n, _k)


@model('RangeInclusive::contains', 'Range::contains', '<RangeInclusive as RangeBounds>::contains', '<Range as RangeBounds>::contains')
def _range_contains(it, key, raw, args):
    r = deref(args[0])
    x = scal(deref(args[1]))
    lo, hi = scal(r.f(0)), scal(r.f(1))
    if r.ty == 'RangeInclusive':
        return b_and(lo.t <= x.t, x.t <= hi.t)
    return b_and(lo.t <= x.t, x.t < hi.t)


@model('RangeInclusive::start', 'RangeInclusive::end')
def _range_incl_bounds(it, key, raw, args):
    r = deref(args[0])
    return Ref(r.fields[0 if raw.endswith('start') else 1])


@model('RangeInclusive::new')
def _range_incl_new(it, key, raw, args):
    return Agg('RangeInclusive', [Cell(args[0]), Cell(args[1])])


class RangeIter(Iter):
    def __init__(self, lo, hi, ty):
        self.lo, self.hi, self.ty = lo, hi, ty

    def next(self, it):
        if it.branch(zt(self.lo) < zt(self.hi)) if not (isinstance(self.lo, int) and isinstance(self.hi, int)) else self.lo < self.hi:
            v = SInt(self.lo, self.ty)
            self.lo = self.lo + 1
            return v
        return None

    def next_back(self, it):
        if it.branch(zt(self.lo) < zt(self.hi)) if not (isinstance(self.lo, int) and isinstance(self.hi, int)) else self.lo < self.hi:
            self.hi = self.hi - 1
            return SInt(self.hi, self.ty)
        return None


def _range_into_iter(it, v, by_ref):
    if v.ty == 'Range':
        return RangeIter(v.f(0).t, v.f(1).t, v.f(0).ty)
    if v.ty == 'RangeInclusive':
        return RangeIter(v.f(0).t, v.f(1).t + 1, v.f(0).ty)
    return NotImplemented


_old_into_iter = into_iter


def into_iter(it, v):          # noqa: F811  (extends the definition above with ranges)
    if isinstance(v, Agg) and v.ty in ('Range', 'RangeInclusive'):
        return _range_into_iter(it, v, False)
    return _old_into_iter(it, v)


MODELS['<* as IntoIterator>::into_iter'] = lambda it, key, raw, args: into_iter(it, args[0])


@model('<Range as Iterator>::next', '<RangeInclusive as Iterator>::next')
def _range_next(it, key, raw, args):
    c = args[0].cell
    if isinstance(c.v, Agg):
        c.v = into_iter(it, c.v)
    return opt(c.v.next(it))


@model('impl#[T]::iter', 'impl#[T]::iter_mut')
def _slice_iter(it, key, raw, args):
    return SliceIter(as_slice(args[0]))


@model('impl#[T]::len')
def _slice_len(it, key, raw, args):
    return SInt(len(as_slice(args[0])), 'usize')


@model('impl#[T]::is_empty')
def _slice_is_empty(it, key, raw, args):
    return len(as_slice(args[0])) == 0


@model('impl#[T]::first', 'impl#[T]::first_mut')
def _slice_first(it, key, raw, args):
    sl = as_slice(args[0])
    return some(Ref(sl.vec.cells[sl.lo])) if len(sl) else none()


@model('impl#[T]::last', 'impl#[T]::last_mut')
def _slice_last(it, key, raw, args):
    sl = as_slice(args[0])
    return some(Ref(sl.vec.cells[sl.hi - 1])) if len(sl) else none()


@model('impl#[T]::get', 'impl#[T]::get_mut')
def _slice_get(it, key, raw, args):
    sl = as_slice(args[0])
    idx = args[1]
    if isinstance(idx, SInt):
        k = it.concretize(idx, 0, len(sl))
        if k is None or k >= len(sl):
            return none()
        return some(Ref(sl.vec.cells[sl.lo + k]))
    try:
        lo, hi = range_bounds(it, idx, len(sl))
    except Panic:
        return none()
    return some(SliceRef(sl.vec, sl.lo + lo, sl.lo + hi))


@model('impl#[T]::to_vec', 'impl#[T]::into_vec', '<[T] as ToOwned>::to_owned')
def _slice_to_vec(it, key, raw, args):
    v = deref(args[0])
    if isinstance(v, VecV):
        return v
    return VecV([Cell(deep_clone(c.v)) for c in as_slice(args[0]).cells()])


@model('impl#[T]::copy_from_slice', 'impl#[T]::clone_from_slice')
def _copy_from_slice(it, key, raw, args):
    d, s_ = as_slice(args[0]), as_slice(args[1])
    if len(d) != len(s_):
        raise Panic('copy_from_slice: source slice length (%d) does not match destination slice length (%d)' % (len(s_), len(d)))
    for a, b in zip(d.cells(), s_.cells()):
        a.v = deep_clone(b.v)
    return UNIT


@model('impl#[T]::reverse')
def _slice_reverse(it, key, raw, args):
    sl = as_slice(args[0])
    vals = [c.v for c in sl.cells()][::-1]
    for c, v in zip(sl.cells(), vals):
        c.v = v
    return UNIT


@model('impl#[T]::swap')
def _slice_swap(it, key, raw, args):
    sl = as_slice(args[0])
    a = it.concretize(args[1], 0, len(sl))
    b = it.concretize(args[2], 0, len(sl))
    if a is None or b is None:
        raise Panic('swap out of bounds')
    ca, cb = sl.vec.cells[sl.lo + a], sl.vec.cells[sl.lo + b]
    ca.v, cb.v = cb.v, ca.v
    return UNIT


@model('impl#[T]::contains')
def _slice_contains(it, key, raw, args):
    sl = as_slice(args[0])
    x = args[1]
    for c in sl.cells():
        if it.branch(values_eq(it, c.v, deref(x, 1))):
            return True
    return False


@model('Vec::dedup')
def _vec_dedup(it, key, raw, args):
    """removes consecutive repeated elements (PartialEq of the element type; symbolic equalities fork)"""
    v = deref(args[0])
    out = []
    for c in v.cells:
        if out and it.branch(values_eq(it, out[-1].v, c.v)):
            continue
        out.append(c)
    v.cells[:] = out
    return UNIT


@model('impl#[T]::split_at')
def _slice_split_at(it, key, raw, args):
    sl = as_slice(args[0])
    k = it.concretize(args[1], 0, len(sl) + 1)
    if k is None:
        raise Panic('split_at out of bounds')
    return tup(SliceRef(sl.vec, sl.lo, sl.lo + k), SliceRef(sl.vec, sl.lo + k, sl.hi))


@model('impl#[T]::concat')
def _slice_concat(it, key, raw, args):
    out = []
    for c in as_slice(args[0]).cells():
        out.extend(Cell(deep_clone(x.v)) for x in as_slice(c.v).cells())
    return VecV(out)


def sort_cells(it, cells, keyf, stable=True, cmpf=None):
    """insertion sort forking on each comparison: explores every ordering consistent with the keys;
    the result is sorted, a permutation, and stable (equal keys keep their order)."""
    items = []
    for c in cells:
        k = keyf(c) if keyf else None
        items.append((k, c.v))
    out = []
    for k, v in items:
        pos = len(out)
        while pos > 0:
            pk, pv = out[pos - 1]
            if cmpf:
                o = cmpf(Ref(Cell(pv)), Ref(Cell(v)))       # Ordering of prev vs new
                gt = o.variant == 1
            else:
                gt = it.branch(key_gt(it, pk, k))
            if not gt:
                break
            pos -= 1
        out.insert(pos, (k, v))
    for c, (k, v) in zip(cells, out):
        c.v = v


def key_gt(it, a, b):
    """a > b for sort keys: scalars, newtypes, tuples (lexicographic)"""
    a, b = deref(a), deref(b)
    if isinstance(a, SInt):
        return a.t > b.t
    if is_bool(a):
        return b_and(a, b_not(b))
    if isinstance(a, Agg):
        res = False
        eq_prefix = True
        for ca, cb in zip(a.fields, b.fields):
            res = b_or(res, b_and(eq_prefix, key_gt(it, ca.v, cb.v)))
            eq_prefix = b_and(eq_prefix, values_eq(it, ca.v, cb.v))
        return res
    if isinstance(a, StrV):
        return a.s > b.s
    if hasattr(a, 'sort_key'):
        return a.sort_key() > b.sort_key()
    raise Unsupported('sort key %r' % (a,))


@model('impl#[T]::sort_by_key', 'impl#[T]::sort_unstable_by_key', 'impl#[T]::sort_by_cached_key')
def _sort_by_key(it, key, raw, args):
    sl = as_slice(args[0])
    sort_cells(it, sl.cells(), lambda c: it.call_value(args[1], [Ref(c)]))
    return UNIT


def sort_orderstat(it, cells):
    """non-forking sort of integers: the i-th output is a fresh integer constrained to be the i-th order statistic
    of the inputs (a member of the inputs with at least i+1 inputs <= it and at least n-i inputs >= it)"""
    xs = [c.v for c in cells]
    n = len(xs)
    ty = xs[0].ty
    it.fresh_n += 1
    outs = []
    for i in range(n):
        s = z3.Int('sorted%d_%d' % (it.fresh_n, i))
        le = z3.Sum([z3.If(zt(x.t) <= s, 1, 0) for x in xs])
        ge = z3.Sum([z3.If(zt(x.t) >= s, 1, 0) for x in xs])
        it.assume(z3.And(z3.Or(*[s == zt(x.t) for x in xs]), le >= i + 1, ge >= n - i))
        outs.append(SInt(s, ty))
    for c, o in zip(cells, outs):
        c.v = o


@model('impl#[T]::sort', 'impl#[T]::sort_unstable')
def _sort(it, key, raw, args):
    sl = as_slice(args[0])
    cells = sl.cells()
    if len(cells) > 3 and all(isinstance(c.v, SInt) for c in cells) and sum(1 for c in cells if not c.v.conc) > 3:
        sort_orderstat(it, cells)
        return UNIT
    sort_cells(it, cells, lambda c: c.v)
    return UNIT


@model('impl#[T]::sort_by', 'impl#[T]::sort_unstable_by')
def _sort_by(it, key, raw, args):
    sl = as_slice(args[0])
    sort_cells(it, sl.cells(), None, cmpf=lambda a, b: it.call_value(args[1], [a, b]))
    return UNIT


@model('vec::from_elem')
def _from_elem(it, key, raw, args):
    n = it.concretize(args[1], 0, 1 << 20)
    return VecV([Cell(deep_clone(args[0])) for _ in range(n)])


@model('boxed::box_assume_init_into_vec_unsafe', 'impl#[T]::into_vec', 'slice::into_vec')
def _box_into_vec(it, key, raw, args):
    v = args[0]
    if isinstance(v, BoxUninit):
        v = v.cell.v
    v = deref(v)
    if isinstance(v, Agg):
        return VecV([Cell(c.v) for c in v.fields])
    if isinstance(v, SliceRef):
        return VecV([Cell(c.v) for c in v.cells()])
    raise Unsupported('into_vec of %r' % (v,))


@model('Box::new_uninit')
def _box_new_uninit(it, key, raw, args):
    return BoxUninit()


@model('Box::new', 'Rc::new', 'Arc::new', 'Box::pin')
def _box_new(it, key, raw, args):
    return Ref(Cell(args[0]))


@model('<Rc as Clone>::clone', '<Arc as Clone>::clone')
def _rc_clone(it, key, raw, args):
    return args[0].cell.v


@model('<Rc as Deref>::deref', '<Box as Deref>::deref', '<Box as DerefMut>::deref_mut', '<Arc as Deref>::deref',
       '<Box as AsRef>::as_ref', '<Box as AsMut>::as_mut', '<Ref as Deref>::deref', '<RefMut as Deref>::deref',
       '<RefMut as DerefMut>::deref_mut', '<Pin as Deref>::deref', '<Pin as DerefMut>::deref_mut')
def _rc_deref(it, key, raw, args):
    v = args[0].cell.v
    if isinstance(v, Agg) and v.ty == 'Pin':
        v = v.f(0)
    return v


# RefCell: transparent (borrow flags are not modelled: double borrows are assumed not to happen)
@model('RefCell::new', 'Cell::new')
def _refcell_new(it, key, raw, args):
    return Agg('RefCell', [Cell(args[0])])


@model('RefCell::borrow', 'RefCell::borrow_mut')
def _refcell_borrow(it, key, raw, args):
    return Ref(deref(args[0]).fields[0])


@model('RefCell::replace', 'Cell::replace')
def _refcell_replace(it, key, raw, args):
    c = deref(args[0]).fields[0]
    old = c.v
    c.v = args[1]
    return old


@model('Cell::get')
def _cell_get(it, key, raw, args):
    return clone(deref(args[0]).fields[0].v)


@model('Cell::set')
def _cell_set(it, key, raw, args):
    deref(args[0]).fields[0].v = args[1]
    return UNIT


@model('RefCell::into_inner')
def _refcell_into_inner(it, key, raw, args):
    return args[0].fields[0].v


# ================================================================= Option / Result
@model('Option::is_some')
def _is_some(it, key, raw, args):
    return deref(args[0]).variant == 1


@model('Option::is_none')
def _is_none(it, key, raw, args):
    return deref(args[0]).variant == 0


@model('Option::unwrap', 'Option::expect', 'Option::unwrap_unchecked')
def _opt_unwrap(it, key, raw, args):
    o = args[0]
    if o.variant == 0:
        raise Panic('unwrap on None')
    return o.fields[0].v


@model('Option::unwrap_or')
def _opt_unwrap_or(it, key, raw, args):
    o = args[0]
    return o.fields[0].v if o.variant == 1 else args[1]


@model('Option::unwrap_or_default')
def _opt_unwrap_or_default(it, key, raw, args):
    o = args[0]
    if o.variant == 1:
        return o.fields[0].v
    m = re.match(r'.*Option::<(.*)>::unwrap_or_default$', raw)
    return default_of(it, m.group(1))


@model('Result::unwrap_or_default')
def _res_unwrap_or_default(it, key, raw, args):
    o = args[0]
    if o.variant == 0:
        return o.fields[0].v
    m = re.match(r'.*Result::<(.*)>::unwrap_or_default$', raw)
    return default_of(it, split_top(m.group(1))[0])


@model('Option::unwrap_or_else')
def _opt_unwrap_or_else(it, key, raw, args):
    o = args[0]
    return o.fields[0].v if o.variant == 1 else it.call_value(args[1], [])


@model('Option::map')
def _opt_map(it, key, raw, args):
    o = args[0]
    return some(it.call_value(args[1], [o.fields[0].v])) if o.variant == 1 else none()


@model('Option::map_or')
def _opt_map_or(it, key, raw, args):
    o = args[0]
    return it.call_value(args[2], [o.fields[0].v]) if o.variant == 1 else args[1]


@model('Option::map_or_else')
def _opt_map_or_else(it, key, raw, args):
    o = args[0]
    return it.call_value(args[2], [o.fields[0].v]) if o.variant == 1 else it.call_value(args[1], [])


@model('Option::and_then')
def _opt_and_then(it, key, raw, args):
    o = args[0]
    return it.call_value(args[1], [o.fields[0].v]) if o.variant == 1 else none()


@model('Option::or_else')
def _opt_or_else(it, key, raw, args):
    o = args[0]
    return o if o.variant == 1 else it.call_value(args[1], [])


@model('Option::or')
def _opt_or(it, key, raw, args):
    return args[0] if args[0].variant == 1 else args[1]


@model('Option::filter')
def _opt_filter(it, key, raw, args):
    o = args[0]
    if o.variant == 1 and it.branch(it.call_value(args[1], [Ref(o.fields[0])])):
        return o
    return none()


@model('Option::ok_or')
def _opt_ok_or(it, key, raw, args):
    o = args[0]
    return ok(o.fields[0].v) if o.variant == 1 else err(args[1])


@model('Option::ok_or_else')
def _opt_ok_or_else(it, key, raw, args):
    o = args[0]
    return ok(o.fields[0].v) if o.variant == 1 else err(it.call_value(args[1], []))


@model('Option::as_ref', 'Option::as_mut')
def _opt_as_ref(it, key, raw, args):
    o = deref(args[0])
    return some(Ref(o.fields[0])) if o.variant == 1 else none()


@model('Option::as_deref', 'Option::as_deref_mut')
def _opt_as_deref(it, key, raw, args):
    o = deref(args[0])
    if o.variant == 0:
        return none()
    v = o.fields[0].v
    if isinstance(v, VecV):
        return some(SliceRef(v, 0, len(v.cells)))
    if isinstance(v, (StrV,)):
        return some(v)
    if isinstance(v, Ref):
        return some(v)
    raise Unsupported('as_deref of %r' % (v,))


@model('Option::take')
def _opt_take(it, key, raw, args):
    c = args[0].cell
    old = c.v
    c.v = none()
    return old


@model('Option::replace')
def _opt_replace(it, key, raw, args):
    c = args[0].cell
    old = c.v
    c.v = some(args[1])
    return old


@model('Option::insert', 'Option::get_or_insert')
def _opt_insert(it, key, raw, args):
    c = args[0].cell
    if 'get_or_insert' in raw and c.v.variant == 1:
        return Ref(c.v.fields[0])
    c.v = some(args[1])
    return Ref(c.v.fields[0])


@model('Option::get_or_insert_with')
def _opt_get_or_insert_with(it, key, raw, args):
    c = args[0].cell
    if c.v.variant == 0:
        c.v = some(it.call_value(args[1], []))
    return Ref(c.v.fields[0])


@model('Option::cloned', 'Option::copied')
def _opt_cloned(it, key, raw, args):
    o = args[0]
    return some(deep_clone(deref(o.fields[0].v, 1))) if o.variant == 1 else none()


@model('Option::iter')
def _opt_iter(it, key, raw, args):
    o = deref(args[0])
    return ListIter([Ref(o.fields[0])] if o.variant == 1 else [])


@model('Option::zip')
def _opt_zip(it, key, raw, args):
    a, b = args
    return some(tup(a.fields[0].v, b.fields[0].v)) if a.variant == 1 and b.variant == 1 else none()


@model('Result::is_ok')
def _is_ok(it, key, raw, args):
    return deref(args[0]).variant == 0


@model('Result::is_err')
def _is_err(it, key, raw, args):
    return deref(args[0]).variant == 1


@model('Result::unwrap', 'Result::expect')
def _res_unwrap(it, key, raw, args):
    r = args[0]
    if r.variant == 1:
        raise Panic('unwrap on Err')
    return r.fields[0].v


@model('Result::unwrap_err', 'Result::expect_err')
def _res_unwrap_err(it, key, raw, args):
    r = args[0]
    if r.variant == 0:
        raise Panic('unwrap_err on Ok')
    return r.fields[0].v


@model('Result::unwrap_or')
def _res_unwrap_or(it, key, raw, args):
    r = args[0]
    return r.fields[0].v if r.variant == 0 else args[1]


@model('Result::unwrap_or_else')
def _res_unwrap_or_else(it, key, raw, args):
    r = args[0]
    return r.fields[0].v if r.variant == 0 else it.call_value(args[1], [r.fields[0].v])


@model('Result::map')
def _res_map(it, key, raw, args):
    r = args[0]
    return ok(it.call_value(args[1], [r.fields[0].v])) if r.variant == 0 else r


@model('Result::map_err')
def _res_map_err(it, key, raw, args):
    r = args[0]
    return err(it.call_value(args[1], [r.fields[0].v])) if r.variant == 1 else r


@model('Result::and_then')
def _res_and_then(it, key, raw, args):
    r = args[0]
    return it.call_value(args[1], [r.fields[0].v]) if r.variant == 0 else r


@model('Result::ok')
def _res_ok(it, key, raw, args):
    r = args[0]
    return some(r.fields[0].v) if r.variant == 0 else none()


@model('Result::err')
def _res_err(it, key, raw, args):
    r = args[0]
    return some(r.fields[0].v) if r.variant == 1 else none()


@model('Result::as_ref', 'Result::as_mut')
def _res_as_ref(it, key, raw, args):
    r = deref(args[0])
    return Agg('Result', [Cell(Ref(r.fields[0]))], r.variant)


@model('<Option as Try>::branch')
def _opt_branch(it, key, raw, args):
    o = args[0]
    if o.variant == 1:
        return Agg('ControlFlow', [Cell(o.fields[0].v)], 0)
    return Agg('ControlFlow', [Cell(none())], 1)


@model('<Result as Try>::branch')
def _res_branch(it, key, raw, args):
    r = args[0]
    if r.variant == 0:
        return Agg('ControlFlow', [Cell(r.fields[0].v)], 0)
    return Agg('ControlFlow', [Cell(err(r.fields[0].v))], 1)


@model('<Option as FromResidual>::from_residual')
def _opt_from_residual(it, key, raw, args):
    return none()


@model('<Result as FromResidual>::from_residual')
def _res_from_residual(it, key, raw, args):
    e = args[0].fields[0].v
    # From conversion of the error type
    m = re.match(r'^<Result<(.*)> as FromResidual<Result<Infallible, (.*)>>>::from_residual$', raw)
    if m:
        parts = split_generic_args(m.group(1))
        if len(parts) == 2 and parts[1].strip() != m.group(2).strip():
            e = it.call('<%s as From<%s>>::from' % (parts[1].strip(), m.group(2).strip()), [e])
    return err(e)


def split_generic_args(s):
    from .mir import split_top
    return split_top(s)


# ================================================================= cmp / num / mem
def values_eq(it, a, b):
    """structural equality of plain data (ints, bools, tuples, newtypes, vecs of them)"""
    a, b = deref(a), deref(b)
    if isinstance(a, SInt) and isinstance(b, SInt):
        return a.t == b.t
    if is_bool(a) and is_bool(b):
        if isinstance(a, bool) and isinstance(b, bool):
            return a == b
        return zb(a) == zb(b)
    if isinstance(a, Agg) and isinstance(b, Agg):
        if a.variant != b.variant or len(a.fields) != len(b.fields):
            return False
        return b_and(*[values_eq(it, x.v, y.v) for x, y in zip(a.fields, b.fields)])
    if isinstance(a, (VecV, SliceRef)) and isinstance(b, (VecV, SliceRef)):
        ca, cb = it.seq_cells(a), it.seq_cells(b)
        if len(ca) != len(cb):
            return False
        return b_and(*[values_eq(it, x.v, y.v) for x, y in zip(ca, cb)])
    if isinstance(a, StrV) and isinstance(b, StrV):
        return a.s == b.s
    if a is UNIT and b is UNIT:
        return True
    if hasattr(a, 'eq_value'):
        return a.eq_value(it, b)
    raise Unsupported('values_eq %r %r' % (a, b))


def prim_cmp_model(op):
    def f(it, key, raw, args):
        a, b = deref(args[0]), deref(args[1])
        if op == 'eq':
            return values_eq(it, a, b)
        if op == 'ne':
            return b_not(values_eq(it, a, b))
        a, b = scal(a), scal(b)
        x, y = a.t, b.t
        return {'lt': lambda: x < y, 'le': lambda: x <= y, 'gt': lambda: x > y, 'ge': lambda: x >= y}[op]()
    return f


for _t in list(INT_TYS) + ['bool', 'char', '()', '(tuple)', 'Vec', '[T]', '[T;N]', 'Option', '&[T]', 'str', '&str', 'String']:
    for _op in ('eq', 'ne'):
        MODELS['<%s as PartialEq>::%s' % (_t, _op)] = prim_cmp_model(_op)
for _t in list(INT_TYS) + ['char']:
    for _op in ('lt', 'le', 'gt', 'ge'):
        MODELS['<%s as PartialOrd>::%s' % (_t, _op)] = prim_cmp_model(_op)


def lex_cmp(it, a, b, op):
    """lexicographic comparison of tuples / newtypes of scalars, as a formula"""
    a, b = deref(a), deref(b)
    if isinstance(a, SInt):
        x, y = a.t, b.t
        return {'lt': x < y, 'le': x <= y, 'gt': x > y, 'ge': x >= y}[op]
    if isinstance(a, Agg) and a.variant is None:
        strict = 'lt' if op in ('lt', 'le') else 'gt'
        res = op in ('le', 'ge')
        for ca, cb in reversed(list(zip(a.fields, b.fields))):
            res = b_or(lex_cmp(it, ca.v, cb.v, strict), b_and(values_eq(it, ca.v, cb.v), res))
        return res
    raise Unsupported('lex_cmp on %r' % (a,))


for _op in ('lt', 'le', 'gt', 'ge'):
    MODELS['<(tuple) as PartialOrd>::%s' % _op] = (lambda op: lambda it, key, raw, args: lex_cmp(it, args[0], args[1], op))(_op)


def ordering_of(it, a, b):
    a, b = scal(deref(a)), scal(deref(b))
    if it.branch(a.t < b.t):
        return Agg('Ordering', [], -1)
    if it.branch(a.t == b.t):
        return Agg('Ordering', [], 0)
    return Agg('Ordering', [], 1)


for _t in list(INT_TYS) + ['char']:
    MODELS['<%s as Ord>::cmp' % _t] = lambda it, key, raw, args: ordering_of(it, args[0], args[1])
    MODELS['<%s as PartialOrd>::partial_cmp' % _t] = lambda it, key, raw, args: some(ordering_of(it, args[0], args[1]))


@model('cmp::max', '<* as Ord>::max')
def _cmp_max(it, key, raw, args):
    a, b = args
    x, y = scal(a), scal(b)
    if isinstance(x, SInt) and (isinstance(a, SInt) or (isinstance(a, Agg) and len(a.fields) == 1 and isinstance(a.f(0), SInt))):
        r = SInt(i_ite(y.t >= x.t, y.t, x.t), x.ty)
        return r if isinstance(a, SInt) else Agg(a.ty, [Cell(r)])
    return b if it.branch(lex_cmp(it, b, a, 'ge')) else a


@model('cmp::min', '<* as Ord>::min')
def _cmp_min(it, key, raw, args):
    a, b = args
    x, y = scal(a), scal(b)
    if isinstance(x, SInt) and (isinstance(a, SInt) or (isinstance(a, Agg) and len(a.fields) == 1 and isinstance(a.f(0), SInt))):
        r = SInt(i_ite(y.t < x.t, y.t, x.t), x.ty)
        return r if isinstance(a, SInt) else Agg(a.ty, [Cell(r)])
    return b if it.branch(lex_cmp(it, b, a, 'lt')) else a


@model('Ordering::reverse')
def _ord_reverse(it, key, raw, args):
    return Agg('Ordering', [], -args[0].variant)


@model('Ordering::then')
def _ord_then(it, key, raw, args):
    return args[0] if args[0].variant != 0 else args[1]


@model('Ordering::then_with')
def _ord_then_with(it, key, raw, args):
    return args[0] if args[0].variant != 0 else it.call_value(args[1], [])


@model('Ordering::is_lt')
def _ord_is_lt(it, key, raw, args):
    return args[0].variant == -1


@model('Ordering::is_gt')
def _ord_is_gt(it, key, raw, args):
    return args[0].variant == 1


@model('Ordering::is_ge')
def _ord_is_ge(it, key, raw, args):
    return args[0].variant >= 0


@model('Ordering::is_le')
def _ord_is_le(it, key, raw, args):
    return args[0].variant <= 0


@model('Ordering::is_eq')
def _ord_is_eq(it, key, raw, args):
    return args[0].variant == 0


def int_method(name):
    def deco(f):
        for t in INT_TYS:
            MODELS['impl#%s::%s' % (t, name)] = f
        return f
    return deco


@int_method('checked_sub')
def _checked_sub(it, key, raw, args):
    a, b = args
    lo, hi = rng(a.ty)
    r = a.t - b.t
    okc = (lo <= r <= hi) if isinstance(r, int) else z3.And(r >= lo, r <= hi)
    return some(SInt(r, a.ty)) if it.branch(okc) else none()


@int_method('checked_add')
def _checked_add(it, key, raw, args):
    a, b = args
    lo, hi = rng(a.ty)
    r = a.t + b.t
    okc = (lo <= r <= hi) if isinstance(r, int) else z3.And(r >= lo, r <= hi)
    return some(SInt(r, a.ty)) if it.branch(okc) else none()


@int_method('checked_mul')
def _checked_mul(it, key, raw, args):
    a, b = args
    lo, hi = rng(a.ty)
    r = a.t * b.t
    okc = (lo <= r <= hi) if isinstance(r, int) else z3.And(r >= lo, r <= hi)
    return some(SInt(r, a.ty)) if it.branch(okc) else none()


@int_method('checked_div')
def _checked_div(it, key, raw, args):
    a, b = args
    if it.branch(b.t == 0):
        return none()
    return some(it.binop('Div', a, b))


@int_method('saturating_sub')
def _saturating_sub(it, key, raw, args):
    a, b = args
    lo, hi = rng(a.ty)
    r = a.t - b.t
    if isinstance(r, int):
        return SInt(max(lo, min(hi, r)), a.ty)
    return SInt(z3.If(r < lo, lo, z3.If(r > hi, hi, r)), a.ty)


@int_method('saturating_add')
def _saturating_add(it, key, raw, args):
    a, b = args
    lo, hi = rng(a.ty)
    r = a.t + b.t
    if isinstance(r, int):
        return SInt(max(lo, min(hi, r)), a.ty)
    return SInt(z3.If(r < lo, lo, z3.If(r > hi, hi, r)), a.ty)


@int_method('saturating_mul')
def _saturating_mul(it, key, raw, args):
    a, b = args
    lo, hi = rng(a.ty)
    r = a.t * b.t
    if isinstance(r, int):
        return SInt(max(lo, min(hi, r)), a.ty)
    return SInt(z3.If(r < lo, lo, z3.If(r > hi, hi, r)), a.ty)


@int_method('wrapping_add')
def _wrapping_add(it, key, raw, args):
    return SInt(wrap(args[0].t + args[1].t, args[0].ty), args[0].ty)


@int_method('wrapping_sub')
def _wrapping_sub(it, key, raw, args):
    return SInt(wrap(args[0].t - args[1].t, args[0].ty), args[0].ty)


@int_method('wrapping_mul')
def _wrapping_mul(it, key, raw, args):
    return SInt(wrap(args[0].t * args[1].t, args[0].ty), args[0].ty)


@int_method('overflowing_add')
def _overflowing_add(it, key, raw, args):
    return it.binop('AddWithOverflow', args[0], args[1])


@int_method('overflowing_sub')
def _overflowing_sub(it, key, raw, args):
    return it.binop('SubWithOverflow', args[0], args[1])


@int_method('abs_diff')
def _abs_diff(it, key, raw, args):
    a, b = args
    uty = 'u' + a.ty[1:]
    return SInt(i_ite(a.t >= b.t, a.t - b.t, b.t - a.t), uty)


@int_method('pow')
def _pow(it, key, raw, args):
    a, b = args
    if a.conc and b.conc:
        r = a.t ** b.t
        lo, hi = rng(a.ty)
        if r > hi and it.mode == 'dev':
            raise Panic('pow overflow')
        return SInt(wrap(r, a.ty), a.ty)
    raise Unsupported('symbolic pow')


@int_method('min')
def _int_min(it, key, raw, args):
    return _cmp_min(it, key, raw, args)


@int_method('max')
def _int_max(it, key, raw, args):
    return _cmp_max(it, key, raw, args)


@int_method('div_ceil')
def _div_ceil(it, key, raw, args):
    a, b = args
    if it.branch(b.t == 0):
        raise Panic('division by zero')
    if a.conc and b.conc:
        return SInt(-(-a.t // b.t), a.ty)
    return SInt((a.t + b.t - 1) / b.t, a.ty)


@int_method('is_multiple_of')
def _is_multiple_of(it, key, raw, args):
    a, b = args
    if a.conc and b.conc:
        return (a.t == 0) if b.t == 0 else (a.t % b.t == 0)
    if b.conc and b.t > 0:
        return a.t % b.t == 0
    raise Unsupported('symbolic is_multiple_of')


@int_method('is_power_of_two')
def _is_pow2(it, key, raw, args):
    a = args[0]
    if a.conc:
        return a.t > 0 and (a.t & (a.t - 1)) == 0
    raise Unsupported('symbolic is_power_of_two')


@int_method('to_le_bytes')
def _to_le_bytes(it, key, raw, args):
    a = args[0]
    n = INT_TYS[a.ty] // 8
    return Agg('[]', [Cell(byte_of(a.t, i)) for i in range(n)])


@int_method('to_be_bytes')
def _to_be_bytes(it, key, raw, args):
    a = args[0]
    n = INT_TYS[a.ty] // 8
    return Agg('[]', [Cell(byte_of(a.t, n - 1 - i)) for i in range(n)])


def byte_of(t, i):
    if isinstance(t, int):
        return SInt((t >> (8 * i)) & 255, 'u8')
    return SInt((t / (1 << (8 * i))) % 256, 'u8')


def _from_bytes(order):
    def f(it, key, raw, args):
        ty = key[1][-2].split('#')[1]
        cells = it.seq_cells(deref(args[0]))
        cs = cells if order == 'le' else cells[::-1]
        tot = 0
        for i, c in enumerate(cs):
            tot = tot + c.v.t * (1 << (8 * i))
        return SInt(tot, ty)
    return f


int_method('from_le_bytes')(_from_bytes('le'))
int_method('from_be_bytes')(_from_bytes('be'))


def _int_const(name, f):
    for t in INT_TYS:
        CONST_MODELS['%s::%s' % (t, name)] = (lambda tt: lambda it: SInt(f(tt), tt))(t)
        CONST_MODELS['impl#%s::%s' % (t, name)] = CONST_MODELS['%s::%s' % (t, name)]


_int_const('MAX', lambda t: rng(t)[1])
_int_const('MIN', lambda t: rng(t)[0])


@model('mem::swap')
def _mem_swap(it, key, raw, args):
    a, b = args[0].cell, args[1].cell
    a.v, b.v = b.v, a.v
    return UNIT


@model('mem::replace')
def _mem_replace(it, key, raw, args):
    c = args[0].cell
    old = c.v
    c.v = args[1]
    return old


@model('mem::take')
def _mem_take(it, key, raw, args):
    c = args[0].cell
    old = c.v
    m = re.match(r'.*mem::take::<(.*)>$', raw)
    c.v = default_of(it, m.group(1))
    return old


@model('mem::drop')
def _mem_drop(it, key, raw, args):
    it.drop_value(Cell(args[0]))
    return UNIT


@model('mem::forget', 'hint::black_box')
def _mem_forget(it, key, raw, args):
    return UNIT if 'forget' in raw else args[0]


@model('mem::size_of')
def _size_of(it, key, raw, args):
    m = re.match(r'.*size_of::<(.*)>$', raw)
    t = m.group(1)
    if t in INT_TYS:
        return SInt(INT_TYS[t] // 8, 'usize')
    raise Unsupported('size_of %s' % t)


def default_of(it, ty):
    ty = ty.strip()
    if ty in INT_TYS:
        return SInt(0, ty)
    if ty == 'bool':
        return False
    h = type_head(ty)
    if h == 'Vec':
        return VecV()
    if h == 'Option':
        return none()
    if h == 'String':
        return StrV('')
    if h == '()':
        return UNIT
    f = DEFAULT_HOOKS.get(h)
    if f:
        return f(it, ty)
    return it.call('<%s as Default>::default' % ty, [])


DEFAULT_HOOKS = {}


@model('<* as Default>::default')
def _default(it, key, raw, args):
    x = key[4] if key and len(key) > 4 else ''
    h = type_head(x)
    if x in INT_TYS:
        return SInt(0, x)
    if x == 'bool':
        return False
    if h == 'Vec':
        return VecV()
    if h == 'Option':
        return none()
    if h == 'String':
        return StrV('')
    f = DEFAULT_HOOKS.get(h)
    if f:
        return f(it, x)
    if h in ('IntoIter', 'Iter', 'Empty'):
        return ListIter([])
    raise Unsupported('Default for %r' % x)


@model('<* as Clone>::clone')
def _clone(it, key, raw, args):
    v = args[0].cell.v
    if isinstance(v, Native) and hasattr(v, 'clone_value'):
        return v.clone_value(it)
    return deep_clone(v)


@model('<* as ToOwned>::to_owned')
def _to_owned(it, key, raw, args):
    v = args[0]
    if isinstance(v, StrV):
        return StrV(v.s)
    if isinstance(v, SliceRef):
        return VecV([Cell(deep_clone(c.v)) for c in v.cells()])
    return deep_clone(deref(v, 1))


@model('<* as From>::from', '<* as Into>::into')
def _from(it, key, raw, args):
    x = key[4] if key and len(key) > 4 else ''
    m = re.search(r' as (?:std::convert::)?(From|Into)<(.*)>>::', raw)
    src = m.group(2) if m else ''
    if m and m.group(1) == 'Into':
        x, src = src, x
    v = args[0]
    if x.strip() == src.strip():
        return v
    if x in INT_TYS and isinstance(v, SInt):
        return SInt(v.t, x)
    if x in INT_TYS and is_bool(v):
        return SInt(i_ite(v, 1, 0), x)
    hx = type_head(x)
    if hx == 'Vec':
        if isinstance(v, (SliceRef,)) or (isinstance(v, Ref)):
            return VecV([Cell(deep_clone(c.v)) for c in as_slice(v).cells()])
        if isinstance(v, Agg) and v.ty == '[]':
            return VecV([Cell(c.v) for c in v.fields])
        if isinstance(v, VecV):
            return v
    if hx == 'String' and isinstance(v, StrV):
        return StrV(v.s)
    if hx in ('Box', 'Rc', 'Arc'):
        return Ref(Cell(v))
    if hx == 'Option':
        return some(v)
    f = FROM_HOOKS.get((hx, type_head(src)))
    if f:
        return f(it, v)
    raise Unsupported('From %r for %r' % (src, x))


FROM_HOOKS = {}


@model('<* as TryFrom>::try_from', '<* as TryInto>::try_into')
def _try_from(it, key, raw, args):
    x = key[4]
    m = re.search(r' as (?:std::convert::)?(TryFrom|TryInto)<(.*)>>::', raw)
    src = m.group(2) if m else ''
    if m and m.group(1) == 'TryInto':
        x, src = src, x
    v = args[0]
    if x in INT_TYS and isinstance(v, SInt):
        lo, hi = rng(x)
        inr = (lo <= v.t <= hi) if v.conc else z3.And(v.t >= lo, v.t <= hi)
        if it.branch(inr):
            return ok(SInt(v.t, x))
        return err(Opaque('TryFromIntError'))
    if type_head(x) == '[T;N]':
        sl = as_slice(v)
        n = int(re.search(r';\s*(\d+)\]', x).group(1))
        if len(sl) != n:
            return err(Opaque('TryFromSliceError'))
        return ok(Agg('[]', [Cell(clone(c.v)) for c in sl.cells()]))
    if type_head(x) == '&[T;N]':
        sl = as_slice(v)
        n = int(re.search(r';\s*(\d+)\]', x).group(1))
        if len(sl) != n:
            return err(Opaque('TryFromSliceError'))
        return ok(Ref(Cell(Agg('[]', sl.cells()))))
    raise Unsupported('TryFrom %r for %r' % (src, x))


@model('<* as AsRef>::as_ref', '<* as Borrow>::borrow', '<* as Deref>::deref', '<* as AsMut>::as_mut',
       '<* as BorrowMut>::borrow_mut', '<* as DerefMut>::deref_mut')
def _as_ref(it, key, raw, args):
    v = args[0]
    t = v.cell.v if isinstance(v, Ref) else v
    if isinstance(t, VecV):
        return SliceRef(t, 0, len(t.cells))
    if isinstance(t, (StrV, SliceRef)):
        return t
    if isinstance(t, Ref):
        return t
    if isinstance(t, Agg) and t.ty == '[]':
        return as_slice(t)
    return v


# ================================================================= fmt / panics / strings
@model('fmt::format', 'format', 'Arguments::new_const', 'Arguments::new_v1', 'Arguments::new_v1_formatted', 'Arguments::new',
       'Argument::new_display', 'Argument::new_debug', 'Argument::new_lower_hex', 'Argument::new_upper_hex',
       'Arguments::from_str', 'Arguments::from_str_nonconst', 'Arguments::as_statically_known_str',
       'fmt::format_inner', 'Argument::new_debug_noop')
def _fmt(it, key, raw, args):
    return Opaque('fmt')


@model('hint::must_use', 'must_use')
def _must_use(it, key, raw, args):
    return args[0]


@re_model(r'^(std|core)::(rt::)?(begin_panic|panicking::panic|panic_fmt|panicking::panic_fmt|panic_display|panicking::panic_display|panicking::assert_failed|panicking::panic_explicit|panic_explicit|panicking::unreachable_display|option::expect_failed|result::unwrap_failed|option::unwrap_failed|panic_nounwind|panicking::panic_nounwind|slice::index::\w+_fail)')
def _panic(it, key, raw, args):
    msg = ''
    if args and isinstance(args[0], StrV):
        msg = args[0].s
    raise Panic('panic: %s %s' % (raw.split('::')[-1][:30], msg))


@model('<String as Deref>::deref', 'String::as_str', '<String as AsRef>::as_ref', 'String::as_bytes',
       '<String as Borrow>::borrow')
def _string_deref(it, key, raw, args):
    v = deref(args[0])
    return v


@model('String::new')
def _string_new(it, key, raw, args):
    return StrV('')


@model('<str as ToString>::to_string', '<String as ToString>::to_string', '<* as ToString>::to_string',
       'impl#str::to_owned', 'impl#str::to_string', '<str as ToOwned>::to_owned', '<String as From>::from')
def _to_string(it, key, raw, args):
    v = deref(args[0])
    if isinstance(v, StrV):
        return StrV(v.s)
    return Opaque('string')


@model('impl#str::len', 'String::len')
def _str_len(it, key, raw, args):
    v = deref(args[0])
    if isinstance(v, StrV):
        return SInt(len(v.s.encode()), 'usize')
    raise Unsupported('len of opaque string')


@model('impl#str::as_bytes')
def _str_as_bytes(it, key, raw, args):
    v = deref(args[0])
    if isinstance(v, StrV):
        bs = v.s.encode()
        return SliceRef(VecV([Cell(SInt(b, 'u8')) for b in bs]), 0, len(bs))
    raise Unsupported('as_bytes of opaque string')


@model('<Pin as Deref>::deref')
def _pin_deref(it, key, raw, args):
    return args[0].cell.v.f(0)


@model('Pin::new_unchecked', 'Pin::new')
def _pin_new(it, key, raw, args):
    return Agg('Pin', [Cell(args[0])])


@model('Pin::get_mut', 'Pin::get_unchecked_mut', 'Pin::into_inner', 'Pin::get_ref', 'Pin::as_mut')
def _pin_get(it, key, raw, args):
    v = args[0]
    if isinstance(v, Ref):
        v = v.cell.v
    if 'as_mut' in raw:
        return Agg('Pin', [Cell(v.f(0))])
    return v.f(0)


@model('<* as IntoFuture>::into_future')
def _into_future(it, key, raw, args):
    return args[0]


@model('<* as FnOnce>::call_once', '<* as FnMut>::call_mut', '<* as Fn>::call')
def _fn_call(it, key, raw, args):
    f = args[0]
    a = args[1]
    probe = f
    while isinstance(probe, Ref):
        probe = probe.cell.v
    if probe is None and key is not None and len(key) > 4:
        # a capture-less closure is zero-sized: MIR never initialises the local; its type names the body
        import re as _re
        m = _re.search(r'\{closure@([^}]*?)\}', key[4])
        if m:
            f = Closure(m.group(1))
    return it.call_value(f, [c.v for c in a.fields] if isinstance(a, Agg) else [])


@model('intrinsics::cold_path', 'hint::assert_unchecked', 'intrinsics::assume', 'hint::spin_loop',
       'intrinsics::likely', 'intrinsics::unlikely')
def _intrinsic_nop(it, key, raw, args):
    if raw.endswith('likely'):
        return args[0]
    return UNIT


# ----- structural fallbacks for foreign types (what #[derive(PartialEq, PartialOrd, Ord)] yields on the model's
# representation); crate types are resolved to their own MIR bodies before these are consulted
@model('<* as PartialEq>::eq')
def _any_eq(it, key, raw, args):
    return values_eq(it, args[0], args[1])


@model('<* as PartialEq>::ne')
def _any_ne(it, key, raw, args):
    return b_not(values_eq(it, args[0], args[1]))


def _cmp_op(op):
    def f(it, key, raw, args):
        a0 = deref(args[0])
        if isinstance(a0, Agg) and a0.ty and (it.prog.traitimpl.get((a0.ty, 'Ord', 'cmp')) or it.prog.traitimpl.get((a0.ty, 'PartialOrd', 'partial_cmp'))):
            # the provided methods lt/le/gt/ge of PartialOrd go through the type's own comparison
            from .models_coll import cmp_values
            c = it.prog.traitimpl.get((a0.ty, 'Ord', 'cmp'))
            if c:
                o = it.run(c[0], [Ref(Cell(a0)), Ref(Cell(deref(args[1])))]).variant
            else:
                r = it.run(it.prog.traitimpl[(a0.ty, 'PartialOrd', 'partial_cmp')][0], [Ref(Cell(a0)), Ref(Cell(deref(args[1])))])
                if r.variant == 0:
                    return False
                o = r.fields[0].v.variant
            if o > 127:
                o -= 256
            return {'lt': o < 0, 'le': o <= 0, 'gt': o > 0, 'ge': o >= 0}[op]
        return lex_cmp(it, args[0], args[1], op)
    return f


for _op in ('lt', 'le', 'gt', 'ge'):
    MODELS['<* as PartialOrd>::%s' % _op] = _cmp_op(_op)


@model('<* as Ord>::cmp')
def _any_cmp(it, key, raw, args):
    from .models_coll import cmp_values
    return Agg('Ordering', [], cmp_values(it, args[0], args[1]))


@model('<* as PartialOrd>::partial_cmp')
def _any_partial_cmp(it, key, raw, args):
    from .models_coll import cmp_values
    return some(Agg('Ordering', [], cmp_values(it, args[0], args[1])))


# ----- std::time::Duration (seconds and nanoseconds)
def dur(secs, nanos=0):
    return Agg('Duration', [Cell(secs if isinstance(secs, SInt) else SInt(secs, 'u64')), Cell(SInt(nanos, 'u32'))])


@model('Duration::from_secs')
def _dur_from_secs(it, key, raw, args):
    return dur(args[0])


@model('Duration::as_secs')
def _dur_as_secs(it, key, raw, args):
    return deref(args[0]).f(0)


@model('<Duration as Add>::add')
def _dur_add(it, key, raw, args):
    a, b = args
    if not (a.f(1).conc and b.f(1).conc and a.f(1).t == 0 and b.f(1).t == 0):
        raise Unsupported('Duration with nanoseconds')
    r = it.binop('AddWithOverflow', a.f(0), b.f(0))
    if it.branch(r.fields[1].v):
        raise Panic('overflow when adding durations')
    return dur(r.fields[0].v)


@model('<u32 as Mul>::mul', '<Duration as Mul>::mul')
def _dur_mul(it, key, raw, args):
    a, b = args
    if isinstance(a, Agg):
        a, b = b, a
    if isinstance(b, Agg) and b.ty == 'Duration':
        r = it.binop('MulWithOverflow', SInt(a.t, 'u64'), b.f(0))
        if it.branch(r.fields[1].v):
            raise Panic('overflow when multiplying duration by scalar')
        return dur(r.fields[0].v)
    return it.binop('Mul', a, b)


for _op in ('lt', 'le', 'gt', 'ge'):
    MODELS['<Duration as PartialOrd>::%s' % _op] = (lambda op: lambda it, key, raw, args: lex_cmp(it, args[0], args[1], op))(_op)


# ----- futures: `async fn` state machines are polled through their MIR poll function; leaf futures are Natives
class LeafFuture(Native):
    """a leaf future (inter-canister call): returns Pending `pending` more times, then Ready(value)"""
    ty = 'LeafFuture'

    def __init__(self, value_fn, pending=0, label=''):
        self.value_fn, self.pending, self.label = value_fn, pending, label
        self.done = False

    def poll(self, it):
        if self.pending > 0:
            self.pending -= 1
            return Agg('Poll', [], 1)
        if self.done:
            raise Panic('leaf future polled after completion')
        self.done = True
        return Agg('Poll', [Cell(self.value_fn(it))], 0)


@model('<* as Future>::poll')
def _future_poll(it, key, raw, args):
    pin = args[0]
    tgt = pin.f(0) if isinstance(pin, Agg) and pin.ty == 'Pin' else pin
    cell = tgt.cell if isinstance(tgt, Ref) else Cell(tgt)
    v = cell.v
    if isinstance(v, Ref):
        cell = v.cell
        v = cell.v
    if isinstance(v, LeafFuture):
        return v.poll(it)
    if type(v).__name__ == 'MaybeDone':
        return _maybe_done_poll(it, key, raw, args)
    if type(v).__name__ == 'PollFnV':
        return _poll_fn_poll(it, key, raw, args)
    if isinstance(v, Agg) and isinstance(v.ty, str) and v.ty.startswith('coroutine:'):
        b = it.prog.closures.get('async:' + v.ty[len('coroutine:'):])
        if b is None:
            raise Unsupported('poll function of %s' % v.ty)
        return it.run(b, [Agg('Pin', [Cell(Ref(cell))]), args[1]])
    raise Unsupported('poll of %r' % (v,))


def poll_once(it, co_cell):
    """poll a coroutine value stored in `co_cell`; returns ('ready', value) or ('pending', None)"""
    r = _future_poll(it, None, '', [Agg('Pin', [Cell(Ref(co_cell))]), Opaque('cx')])
    return ('ready', r.fields[0].v) if r.variant == 0 else ('pending', None)


# ----- futures-util pieces used by `futures::join!`
class MaybeDone(Native):
    ty = 'MaybeDone'

    def __init__(self, fut):
        self.fut = Cell(fut)
        self.out = None
        self.state = 'future'


def _as_target(v):
    """strip Pin / references down to the pointee cell"""
    while True:
        if isinstance(v, Agg) and v.ty == 'Pin':
            v = v.f(0)
        elif isinstance(v, Ref):
            if isinstance(v.cell.v, (Ref,)) or (isinstance(v.cell.v, Agg) and v.cell.v.ty == 'Pin'):
                v = v.cell.v
            else:
                return v.cell
        else:
            return Cell(v)


@model('maybe_done', 'future::maybe_done')
def _maybe_done(it, key, raw, args):
    return MaybeDone(args[0])


@model('<MaybeDone as Future>::poll')
def _maybe_done_poll(it, key, raw, args):
    md = _as_target(args[0]).v
    if md.state == 'future':
        r = _future_poll(it, None, '', [Agg('Pin', [Cell(Ref(md.fut))]), args[1]])
        if r.variant == 1:
            return Agg('Poll', [], 1)
        md.out = r.fields[0].v
        md.state = 'done'
    elif md.state == 'gone':
        raise Panic('MaybeDone polled after value taken')
    return Agg('Poll', [Cell(UNIT)], 0)


@model('MaybeDone::take_output')
def _maybe_done_take(it, key, raw, args):
    md = _as_target(args[0]).v
    if md.state != 'done':
        return none()
    md.state = 'gone'
    return some(md.out)


class PollFnV(Native):
    ty = 'PollFn'

    def __init__(self, f):
        self.f = Cell(f)


@model('future::poll_fn', 'poll_fn')
def _poll_fn(it, key, raw, args):
    return PollFnV(args[0])


@model('<PollFn as Future>::poll')
def _poll_fn_poll(it, key, raw, args):
    pf = _as_target(args[0]).v
    return it.call_value(Ref(pf.f), [args[1]])


@model('Poll::is_ready')
def _poll_is_ready(it, key, raw, args):
    return deref(args[0]).variant == 0


@model('Poll::is_pending')
def _poll_is_pending(it, key, raw, args):
    return deref(args[0]).variant == 1


# ----- operator traits on primitives (and references to them)
def _op_model(op, checked):
    def f(it, key, raw, args):
        a, b = deref(args[0]), deref(args[1])
        if checked and isinstance(a, SInt):
            r = it.binop(op + 'WithOverflow', a, b)
            if it.mode == 'dev' and it.branch(r.fields[1].v):
                raise Panic('attempt to %s with overflow' % op.lower())
            return r.fields[0].v
        return it.binop(op, a, b)
    return f


for _tr, _m, _op, _chk in (('Add', 'add', 'Add', True), ('Sub', 'sub', 'Sub', True), ('Mul', 'mul', 'Mul', True), ('Div', 'div', 'Div', False),
                           ('Rem', 'rem', 'Rem', False), ('BitXor', 'bitxor', 'BitXor', False), ('BitAnd', 'bitand', 'BitAnd', False),
                           ('BitOr', 'bitor', 'BitOr', False), ('Shl', 'shl', 'Shl', False), ('Shr', 'shr', 'Shr', False)):
    if '<* as %s>::%s' % (_tr, _m) not in MODELS:
        MODELS['<* as %s>::%s' % (_tr, _m)] = _op_model(_op, _chk)


def _assign_model(op, checked):
    inner = _op_model(op, checked)

    def f(it, key, raw, args):
        c = args[0].cell
        c.v = inner(it, key, raw, [c.v, args[1]])
        return UNIT
    return f


for _tr, _m, _op, _chk in (('AddAssign', 'add_assign', 'Add', True), ('SubAssign', 'sub_assign', 'Sub', True), ('MulAssign', 'mul_assign', 'Mul', True),
                           ('BitXorAssign', 'bitxor_assign', 'BitXor', False), ('BitOrAssign', 'bitor_assign', 'BitOr', False)):
    MODELS['<* as %s>::%s' % (_tr, _m)] = _assign_model(_op, _chk)


@model('impl#f64::round')
def _f64_round(it, key, raw, args):
    import math
    x = args[0]
    return float(math.floor(abs(x) + 0.5)) * (1.0 if x >= 0 else -1.0)


@model('<Cow as Deref>::deref', '<Cow as AsRef>::as_ref', '<Cow as Borrow>::borrow')
def _cow_deref(it, key, raw, args):
    c = deref(args[0])
    if not (isinstance(c, Agg) and c.ty == 'Cow'):
        return c
    inner = c.f(0)
    if c.variant == 0:          # Borrowed(&T)
        return inner
    if isinstance(inner, VecV):
        return SliceRef(inner, 0, len(inner.cells))
    if isinstance(inner, StrV):
        return inner
    return Ref(c.fields[0])


@model('Cow::into_owned', '<Cow as ToOwned>::to_owned', 'Cow::to_vec')
def _cow_into_owned(it, key, raw, args):
    c = deref(args[0])
    inner = c.f(0) if isinstance(c, Agg) and c.ty == 'Cow' else c
    if isinstance(inner, SliceRef):
        return VecV([Cell(deep_clone(x.v)) for x in inner.cells()])
    return deep_clone(deref(inner))


# ================================================================= further std models (robustness against refactors of the code under test)
@model('<* as Iterator>::reduce')
def _reduce(it, key, raw, args):
    c = args[0].cell if isinstance(args[0], Ref) else Cell(args[0])
    acc = inext(it, c)
    if acc is None:
        return none()
    while True:
        x = inext(it, c)
        if x is None:
            return some(acc)
        acc = it.call_value(args[1], [acc, x])


class SkipWhileIter(Adaptor):
    started = False

    def next(self, it):
        while True:
            x = inext(it, self.inner)
            if x is None:
                return None
            if self.started:
                return x
            if not it.branch(it.call_value(self.extra[0], [Ref(Cell(x))])):
                self.started = True
                return x


@model('<* as Iterator>::skip_while')
def _skip_while(it, key, raw, args):
    return SkipWhileIter(args[0], args[1])


class InspectIter(Adaptor):
    def next(self, it):
        x = inext(it, self.inner)
        if x is not None:
            it.call_value(self.extra[0], [Ref(Cell(x))])
        return x


@model('<* as Iterator>::inspect')
def _inspect(it, key, raw, args):
    return InspectIter(args[0], args[1])


class StepByIter(Adaptor):
    first = True

    def next(self, it):
        n = self.extra[0]
        if self.first:
            self.first = False
            return inext(it, self.inner)
        for _ in range(n - 1):
            if inext(it, self.inner) is None:
                return None
        return inext(it, self.inner)


@model('<* as Iterator>::step_by')
def _step_by(it, key, raw, args):
    n = args[1].t
    if not isinstance(n, int):
        raise Unsupported('step_by with a symbolic step')
    if n == 0:
        raise Panic('assertion failed: step != 0')
    return StepByIter(args[0], n)


@model('<* as Iterator>::partition')
def _partition(it, key, raw, args):
    a, b = VecV(), VecV()
    for x in drain(it, args[0]):
        (a if it.branch(it.call_value(args[1], [Ref(Cell(x))])) else b).cells.append(Cell(x))
    return tup(a, b)


@model('<* as Iterator>::unzip')
def _unzip(it, key, raw, args):
    a, b = VecV(), VecV()
    for x in drain(it, args[0]):
        a.cells.append(Cell(x.fields[0].v))
        b.cells.append(Cell(x.fields[1].v))
    return tup(a, b)


@model('<* as Iterator>::rposition')
def _rposition(it, key, raw, args):
    xs = drain(it, args[0])
    for i in range(len(xs) - 1, -1, -1):
        if it.branch(it.call_value(args[1], [xs[i]])):
            return some(SInt(i, 'usize'))
    return none()


@model('impl#[T]::windows')
def _windows(it, key, raw, args):
    sl = as_slice(args[0])
    n = args[1].t
    if not isinstance(n, int):
        raise Unsupported('windows with a symbolic size')
    if n == 0:
        raise Panic('window size must be non-zero')
    return ListIter([SliceRef(sl.vec, sl.lo + i, sl.lo + i + n) for i in range(0, len(sl) - n + 1)])


@model('impl#[T]::chunks', 'impl#[T]::chunks_exact')
def _chunks(it, key, raw, args):
    sl = as_slice(args[0])
    n = args[1].t
    if not isinstance(n, int):
        raise Unsupported('chunks with a symbolic size')
    if n == 0:
        raise Panic('chunk size must be non-zero')
    exact = key is not None and 'exact' in str(raw)
    out = []
    i = 0
    while i < len(sl):
        j = min(i + n, len(sl))
        if exact and j - i < n:
            break
        out.append(SliceRef(sl.vec, sl.lo + i, sl.lo + j))
        i = j
    return ListIter(out)


@model('impl#[T]::split_first')
def _split_first(it, key, raw, args):
    sl = as_slice(args[0])
    if len(sl) == 0:
        return none()
    return some(tup(Ref(sl.vec.cells[sl.lo]), SliceRef(sl.vec, sl.lo + 1, sl.hi)))


@model('impl#[T]::split_last')
def _split_last(it, key, raw, args):
    sl = as_slice(args[0])
    if len(sl) == 0:
        return none()
    return some(tup(Ref(sl.vec.cells[sl.hi - 1]), SliceRef(sl.vec, sl.lo, sl.hi - 1)))


@model('impl#[T]::starts_with')
def _starts_with(it, key, raw, args):
    a, b = as_slice(args[0]), as_slice(args[1])
    if len(b) > len(a):
        return False
    for x, y in zip(a.cells(), b.cells()):
        if not it.branch(values_eq(it, x.v, y.v)):
            return False
    return True


@model('impl#[T]::ends_with')
def _ends_with(it, key, raw, args):
    a, b = as_slice(args[0]), as_slice(args[1])
    if len(b) > len(a):
        return False
    for x, y in zip(a.cells()[len(a) - len(b):], b.cells()):
        if not it.branch(values_eq(it, x.v, y.v)):
            return False
    return True


@model('impl#[T]::fill')
def _slice_fill(it, key, raw, args):
    for c in as_slice(args[0]).cells():
        c.v = deep_clone(args[1])
    return UNIT


@model('Vec::dedup_by_key')
def _vec_dedup_by_key(it, key, raw, args):
    v = deref(args[0])
    out, keys = [], []
    for c in v.cells:
        k = it.call_value(args[1], [Ref(c)])
        if out and it.branch(values_eq(it, keys[-1], k)):
            continue
        out.append(c)
        keys.append(k)
    v.cells[:] = out
    return UNIT


@model('Vec::reserve', 'Vec::reserve_exact', 'Vec::shrink_to_fit')
def _vec_reserve(it, key, raw, args):
    return UNIT


@model('Option::is_some_and')
def _opt_is_some_and(it, key, raw, args):
    o = args[0]
    return o.variant == 1 and bool(it.branch(it.call_value(args[1], [o.fields[0].v])))


@model('Option::is_none_or')
def _opt_is_none_or(it, key, raw, args):
    o = args[0]
    return o.variant == 0 or bool(it.branch(it.call_value(args[1], [o.fields[0].v])))


@model('Option::flatten')
def _opt_flatten(it, key, raw, args):
    o = args[0]
    return o.fields[0].v if o.variant == 1 else none()


@model('Option::xor')
def _opt_xor(it, key, raw, args):
    a, b = args
    if a.variant == 1 and b.variant == 0:
        return a
    if a.variant == 0 and b.variant == 1:
        return b
    return none()


@model('Result::or_else')
def _res_or_else(it, key, raw, args):
    r = args[0]
    return r if r.variant == 0 else it.call_value(args[1], [r.fields[0].v])


@model('Result::is_ok_and')
def _res_is_ok_and(it, key, raw, args):
    r = args[0]
    return r.variant == 0 and bool(it.branch(it.call_value(args[1], [r.fields[0].v])))


@model('Result::is_err_and')
def _res_is_err_and(it, key, raw, args):
    r = args[0]
    return r.variant == 1 and bool(it.branch(it.call_value(args[1], [r.fields[0].v])))


@int_method('clamp')
def _int_clamp(it, key, raw, args):
    x, lo, hi = args
    if all(isinstance(v.t, int) for v in args):
        if lo.t > hi.t:
            raise Panic('assertion failed: min <= max')
        return SInt(max(lo.t, min(hi.t, x.t)), x.ty)
    if it.branch(zt(lo.t) > zt(hi.t)):
        raise Panic('assertion failed: min <= max')
    return SInt(z3.If(zt(x.t) < zt(lo.t), zt(lo.t), z3.If(zt(x.t) > zt(hi.t), zt(hi.t), zt(x.t))), x.ty)


@int_method('abs')
def _int_abs(it, key, raw, args):
    x = args[0]
    lo, hi = rng(x.ty)
    if isinstance(x.t, int):
        if x.t == lo and lo < 0:
            raise Panic('attempt to negate with overflow')
        return SInt(abs(x.t), x.ty)
    if lo < 0 and it.branch(zt(x.t) == lo):
        raise Panic('attempt to negate with overflow')
    return SInt(z3.If(zt(x.t) < 0, -zt(x.t), zt(x.t)), x.ty)


@int_method('signum')
def _int_signum(it, key, raw, args):
    x = args[0]
    if isinstance(x.t, int):
        return SInt((x.t > 0) - (x.t < 0), x.ty)
    return SInt(z3.If(zt(x.t) > 0, 1, z3.If(zt(x.t) < 0, -1, 0)), x.ty)


@int_method('checked_rem')
def _checked_rem(it, key, raw, args):
    a, b = args
    if it.branch(zt(b.t) == 0 if not isinstance(b.t, int) else b.t == 0):
        return none()
    if isinstance(a.t, int) and isinstance(b.t, int):
        r = abs(a.t) % abs(b.t)
        return some(SInt(-r if a.t < 0 else r, a.ty))
    lo, _ = rng(a.ty)
    if lo < 0:
        raise Unsupported('checked_rem of symbolic signed integers')
    return some(SInt(zt(a.t) % zt(b.t), a.ty))


@int_method('rem_euclid')
def _rem_euclid(it, key, raw, args):
    a, b = args
    if it.branch(zt(b.t) == 0 if not isinstance(b.t, int) else b.t == 0):
        raise Panic('attempt to calculate the remainder with a divisor of zero')
    if isinstance(a.t, int) and isinstance(b.t, int):
        return SInt(a.t % abs(b.t), a.ty)
    lo, _ = rng(a.ty)
    if lo < 0:
        raise Unsupported('rem_euclid of symbolic signed integers')
    return SInt(zt(a.t) % zt(b.t), a.ty)


@int_method('next_multiple_of')
def _next_multiple_of(it, key, raw, args):
    a, b = args
    if it.branch(zt(b.t) == 0 if not isinstance(b.t, int) else b.t == 0):
        raise Panic('attempt to calculate the remainder with a divisor of zero')
    lo, hi = rng(a.ty)
    if isinstance(a.t, int) and isinstance(b.t, int):
        r = ((a.t + b.t - 1) // b.t) * b.t
    else:
        q = (zt(a.t) + zt(b.t) - 1) / zt(b.t)
        r = sym_mul(q, zt(b.t)) if not isinstance(b.t, int) else q * b.t
    if it.branch(zt(r) > hi if not isinstance(r, int) else r > hi):
        raise Panic('attempt to multiply with overflow')
    return SInt(r, a.ty)


def _bitcount(name, f):
    def g(it, key, raw, args):
        x = args[0]
        if not isinstance(x.t, int):
            s = z3.simplify(zt(x.t))
            if not z3.is_int_value(s):
                raise Unsupported('%s of a symbolic integer' % name)
            v = s.as_long()
        else:
            v = x.t
        w = INT_TYS[x.ty]
        return SInt(f(v & ((1 << w) - 1), w), 'u32')
    int_method(name)(g)


_bitcount('leading_zeros', lambda v, w: w - v.bit_length())
_bitcount('trailing_zeros', lambda v, w: w if v == 0 else (v & -v).bit_length() - 1)
_bitcount('count_ones', lambda v, w: bin(v).count('1'))
_bitcount('count_zeros', lambda v, w: w - bin(v).count('1'))
