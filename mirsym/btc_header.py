"""Model pieces for header validation (C11, C10): compact targets, retarget formula, header hashing, the
HeaderStore trait object, and the stubs of the `bitcoin` dependency's arithmetic.

Symbolic mode: Target::from_compact = T(bits), from_next_work_required = NWR(bits, timespan, network) are
uninterpreted functions shared by implementation and oracle (their arithmetic is the dependency's, probed with Kani);
the proof-of-work value of a header is a symbolic integer W.
Concrete mode (translator validation / replay): the same functions are computed exactly (python big ints, SHA-256d)."""
import hashlib, struct
import z3
from .interp import (Agg, Cell, SInt, Ref, VecV, SliceRef, StrV, Opaque, UNIT, Native, Panic, Unsupported, some, none, ok,
                     err, tup, CONST_MODELS, zt)
from .models_std import deref
from . import harness as H

NETWORKS = ['Bitcoin', 'Testnet', 'Testnet4', 'Signet', 'Regtest']
MAX_TARGET = {'Bitcoin': 0xFFFF << 208, 'Testnet': 0xFFFF << 208, 'Testnet4': 0xFFFF << 208, 'Signet': 0x0377ae00 << 208,
              'Regtest': 0x7FFFFF00 << 224}
POW_LIMIT_BITS = {'Bitcoin': 0x1d00ffff, 'Testnet': 0x1d00ffff, 'Testnet4': 0x1d00ffff, 'Signet': 0x1e0377ae, 'Regtest': 0x207fffff}
TIMESPAN = 14 * 24 * 60 * 60

T_FN = z3.Function('T_compact', z3.IntSort(), z3.IntSort())
NWR_FN = z3.Function('NWR', z3.IntSort(), z3.IntSort(), z3.IntSort(), z3.IntSort())


def t_conc(bits):
    e = bits >> 24
    if e <= 3:
        mant, expt = (bits & 0xFFFFFF) >> (8 * (3 - e)), 0
    else:
        mant, expt = bits & 0xFFFFFF, 8 * (e - 3)
    if mant > 0x7FFFFF:
        return 0
    return (mant << expt) & ((1 << 256) - 1)


def to_compact_lossy(t):
    size = (t.bit_length() + 7) // 8
    if size <= 3:
        compact = (t << (8 * (3 - size))) & 0xFFFFFFFF
    else:
        compact = (t >> (8 * (size - 3))) & 0xFFFFFFFF
    if compact & 0x00800000:
        compact >>= 8
        size += 1
    return (compact | (size << 24)) & 0xFFFFFFFF


def nwr_conc(last_bits, timespan, net):
    if net == 'Regtest':
        return last_bits
    ts = max(TIMESPAN >> 2, min(TIMESPAN << 2, timespan))
    prev = t_conc(last_bits)
    maxr = min((prev << 2) & ((1 << 256) - 1), MAX_TARGET[net])
    ret = ((prev * ts) & ((1 << 256) - 1)) // TIMESPAN
    if ret >= maxr:
        return to_compact_lossy(maxr)
    return to_compact_lossy(ret)


def header_bytes(version, prev, merkle, time, bits, nonce):
    return struct.pack('<i', version) + prev.to_bytes(32, 'little') + merkle.to_bytes(32, 'little') + struct.pack('<III', time, bits, nonce)


def header_hash(b):
    return int.from_bytes(hashlib.sha256(hashlib.sha256(b).digest()).digest(), 'little')


def compact(v):
    return Agg('CompactTarget', [Cell(v if isinstance(v, SInt) else SInt(v, 'u32'))])


def target(t):
    return Agg('Target', [Cell(SInt(t, 'u256'))])


class HeaderCtx:
    """per-scenario context: symbolic/concrete interpretation of T, NWR, W"""
    def __init__(self, it, prog, concrete=False):
        self.it, self.prog, self.concrete = it, prog, concrete
        self.w = {}          # header id -> W term (proof-of-work value of the header)
        self.dhdr = prog.src.find_adt(['bitcoin', 'blockdata', 'block', 'Header'])
        self.dnet = prog.src.find_adt(['bitcoin', 'network', 'Network'])
        self.dverr = prog.src.find_adt(['bitcoin', 'blockdata', 'block', 'ValidationError'])
        self.t_seen = {}
        self.install()

    # ---- value constructors
    def network(self, name):
        return Agg('Network', [], self.dnet.variant(name)[1][3])

    def netname(self, v):
        return [x[0] for x in self.dnet.variants if x[3] == deref(v).variant][0]

    def mk_header(self, hid, prev, time, bits):
        vals = dict(version=Opaque('version'), prev_blockhash=Agg('BlockHash', [Cell(SInt(prev, 'u256'))]), merkle_root=Opaque('merkle'),
                    time=time if isinstance(time, SInt) else SInt(time, 'u32'), bits=compact(bits), nonce=SInt(hid, 'u256'))
        return Agg('Header', [Cell(vals[f]) for f in self.dhdr.fields])

    def hfield(self, h, name):
        return deref(h).fields[self.dhdr.fields.index(name)].v

    # ---- interpretation of the dependency's arithmetic
    def T(self, bits):
        b = bits.t if isinstance(bits, SInt) else bits
        if isinstance(b, int):
            if self.concrete:
                return t_conc(b)
            term = T_FN(z3.IntVal(b))
            if b not in self.t_seen:
                self.t_seen[b] = True
                self.it.assume(term == t_conc(b))
            return term
        term = T_FN(b)
        k = term.get_id()
        if k not in self.t_seen:
            self.t_seen[k] = term      # keeps the term alive (z3 reuses ids of collected terms)
            self.it.assume(z3.And(term >= 0, term < (1 << 256)))
        return term

    def NWR(self, last_bits, timespan, netname):
        lb = last_bits.t if isinstance(last_bits, SInt) else last_bits
        ts = timespan.t if isinstance(timespan, SInt) else timespan
        if self.concrete:
            return nwr_conc(lb, ts, netname)
        term = NWR_FN(zt(lb), zt(ts), z3.IntVal(NETWORKS.index(netname)))
        k = term.get_id()
        if k not in self.t_seen:
            self.t_seen[k] = term      # keeps the term alive (z3 reuses ids of collected terms)
            self.it.assume(z3.And(term >= 0, term < (1 << 32)))
        return term

    def install(self):
        it = self.it
        ov = it.overrides
        ov['Header::block_hash'] = lambda it_, k, r, a: Agg('BlockHash', [Cell(SInt(self.hfield(a[0], 'nonce').t, 'u256'))])
        ov['Header::target'] = lambda it_, k, r, a: target(self.T(self.hfield(a[0], 'bits').fields[0].v))
        ov['Target::from_compact'] = lambda it_, k, r, a: target(self.T(a[0].fields[0].v))
        ov['CompactTarget::from_consensus'] = lambda it_, k, r, a: compact(a[0])
        ov['CompactTarget::from_next_work_required'] = lambda it_, k, r, a: compact(
            SInt(self.NWR(a[0].fields[0].v, a[1], self.netname(a[2])), 'u32'))
        ov['Header::validate_pow'] = self.validate_pow
        for nm, net in (('MAINNET', 'Bitcoin'), ('TESTNET', 'Testnet'), ('REGTEST', 'Regtest'), ('SIGNET', 'Signet')):
            ov['Target::MAX_ATTAINABLE_' + nm] = (lambda n: lambda it_: target(MAX_TARGET[n]))(net)
            ov['bitcoin::Target::MAX_ATTAINABLE_' + nm] = ov['Target::MAX_ATTAINABLE_' + nm]
        ov['_print'] = ov['std::io::_print'] = ov['io::_print'] = lambda it_, k, r, a: UNIT

    def validate_pow(self, it, k, r, a):
        """rust-bitcoin: Err(BadTarget) iff required != Target::from_compact(bits); else Ok iff hash <= target"""
        hdr, req = a
        tb = self.T(self.hfield(hdr, 'bits').fields[0].v)
        rq = req.fields[0].v.t
        hid = self.hfield(hdr, 'nonce').t
        if not it.branch(zt(tb) == zt(rq) if not (isinstance(tb, int) and isinstance(rq, int)) else tb == rq):
            return err(Agg('ValidationError', [], self.dverr.variant('BadTarget')[1][3]))
        w = self.w[hid]
        c = (w <= tb) if isinstance(w, int) and isinstance(tb, int) else zt(w) <= zt(tb)
        if it.branch(c):
            return ok(Agg('BlockHash', [Cell(SInt(hid, 'u256'))]))
        return err(Agg('ValidationError', [], self.dverr.variant('BadProofOfWork')[1][3]))


class StoreModel(Native):
    """HeaderStore trait object: a window of the chain ending at the tip (height `tip_height`) plus the header at the
    last adjustment height; headers are looked up by their id"""
    ty = 'HeaderStoreModel'

    def __init__(self, ctx, window, tip_height, by_height=None):
        # window: list of (id, header) from the tip downwards
        self.ctx, self.window, self.tip_height = ctx, window, tip_height
        self.by_height = by_height or {}
        self.lookups = []

    def mcall(self, it, trait, method, args):
        if method == 'height':
            return self.tip_height if isinstance(self.tip_height, SInt) else SInt(self.tip_height, 'u32')
        if method == 'get_with_block_hash':
            hid = deref(args[1]).fields[0].v.t
            self.lookups.append(hid)
            for i, h in self.window:
                if i == hid:
                    return some(h)
            return none()
        if method == 'get_with_height':
            h = args[1].t
            th = self.tip_height.t if isinstance(self.tip_height, SInt) else self.tip_height
            if isinstance(h, int) and h in self.by_height:
                return some(self.by_height[h])
            if isinstance(h, int) and isinstance(th, int):
                k = th - h
                if 0 <= k < len(self.window):
                    return some(self.window[k][1])
                return none()
            raise Unsupported('get_with_height with symbolic height %s' % h)
        if method == 'get_initial_hash':
            g = self.mcall(it, trait, 'get_with_height', [args[0], SInt(0, 'u32')])
            if g.variant == 0:
                raise Panic('genesis block header not found')
            return Agg('BlockHash', [Cell(SInt(self.ctx.hfield(g.fields[0].v, 'nonce').t, 'u256'))])
        raise Unsupported('HeaderStore::%s' % method)
