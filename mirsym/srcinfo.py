"""Facts the MIR text does not carry, read from the Rust sources it points at:
struct field order, enum variant order / discriminants, and the header of every `impl` block.
"""
import os, re
from .mir import split_top, strip_generics, scan_top, match_close


def strip_comments(src):
    out = []
    i, n = 0, len(src)
    while i < n:
        c = src[i]
        if c == '/' and src[i + 1:i + 2] == '/':
            j = src.find('\n', i)
            j = n if j == -1 else j
            out.append(' ' * (j - i))
            i = j
        elif c == '/' and src[i + 1:i + 2] == '*':
            j = src.find('*/', i + 2)
            j = n if j == -1 else j + 2
            out.append(re.sub(r'[^\n]', ' ', src[i:j]))
            i = j
        elif c == "'" and src[i + 1:i + 2] == '\\':
            j = src.find("'", i + 2)
            j = n if j == -1 else j + 1
            out.append("' '" + ' ' * (j - i - 3))
            i = j
        elif c == "'" and src[i + 2:i + 3] == "'":
            out.append("' '")
            i += 3
        elif c == '"':
            j = i + 1
            while j < n and src[j] != '"':
                j += 2 if src[j] == '\\' else 1
            out.append('"' + re.sub(r'[^\n]', ' ', src[i + 1:j]) + '"')
            i = j + 1
        else:
            out.append(c)
            i += 1
    return ''.join(out)


def strip_attrs(s):
    # remove #[...] attributes
    out = []
    i = 0
    while i < len(s):
        if s[i] == '#' and s[i + 1:i + 2] == '[':
            i = match_close(s, i + 1) + 1
            continue
        if s[i] == '#' and s[i + 1:i + 3] == '![':
            i = match_close(s, i + 2) + 1
            continue
        out.append(s[i])
        i += 1
    return ''.join(out)


class Adt:
    def __init__(self, name, kind, file, mod):
        self.name, self.kind, self.file, self.mod = name, kind, file, mod
        self.fields = None      # struct: list of names (named) or arity (tuple) ; None for unit
        self.named = False
        self.variants = []      # enum: list of (name, 'unit'|'tuple'|'named', fields/arity, discr)

    def field_index(self, fname):
        return self.fields.index(fname)

    def variant(self, vname):
        for i, v in enumerate(self.variants):
            if v[0] == vname:
                return i, v
        raise KeyError(vname)

    def __repr__(self):
        return '<Adt %s %s>' % (self.kind, '::'.join(self.mod + [self.name]))


def parse_fields_named(body):
    names = []
    for part in split_top(strip_attrs(body)):
        part = part.strip()
        if not part:
            continue
        part = re.sub(r'^pub(\([^)]*\))?\s+', '', part)
        m = re.match(r'^(r#)?(\w+)\s*:', part)
        if m:
            names.append(m.group(2))
    return names


class SrcInfo:
    def __init__(self, repo):
        self.repo = repo
        self.adts = {}        # last name -> [Adt]
        self.files = {}
        self.impl_cache = {}
        self.modules = {'crate', 'self', 'super'}
        self.aliases = {}

    def text(self, path):
        if path not in self.files:
            full = path if os.path.isabs(path) else os.path.join(self.repo, path)
            self.files[path] = open(full).read()
        return self.files[path]

    # ---------------------------------------------------------------- ADT declarations
    def load_crate(self, crate_name, src_dir):
        """src_dir relative to repo (or absolute); walks all .rs files"""
        base = src_dir if os.path.isabs(src_dir) else os.path.join(self.repo, src_dir)
        for root, _, fs in os.walk(base):
            for f in sorted(fs):
                if f.endswith('.rs'):
                    full = os.path.join(root, f)
                    rel = os.path.relpath(full, base)[:-3].split(os.sep)
                    if rel[-1] in ('mod', 'lib', 'main'):
                        rel = rel[:-1]
                    self.modules.update(rel)
                    self.load_file(full, [crate_name] + rel)

    def load_file(self, full, mod):
        src = strip_comments(open(full).read())
        for m in re.finditer(r'\btype\s+(\w+)\s*(?:<[^=]*>)?\s*=\s*([^;]+);', src):
            self.aliases[m.group(1)] = self.head(m.group(2))
        for m in re.finditer(r'\b(struct|enum)\s+(\w+)', src):
            kind, name = m.group(1), m.group(2)
            k = m.end()
            # skip generics
            while k < len(src) and src[k].isspace():
                k += 1
            if k < len(src) and src[k] == '<':
                k = match_close(src, k) + 1
            # find body start: '{' '(' or ';' (skipping where clauses)
            j = k
            while j < len(src) and src[j] not in '{(;':
                j += 1
            if j >= len(src):
                continue
            adt = Adt(name, kind, full, mod)
            if src[j] == ';':
                adt.fields = None
            elif src[j] == '(':
                e = match_close(src, j)
                adt.fields = len(split_top(strip_attrs(src[j + 1:e])))
            else:
                e = match_close(src, j)
                body = src[j + 1:e]
                if kind == 'struct':
                    adt.named = True
                    adt.fields = parse_fields_named(body)
                else:
                    nxt = 0
                    for part in split_top(strip_attrs(body)):
                        part = part.strip()
                        if not part:
                            continue
                        mv = re.match(r'^(\w+)\s*(.*)$', part, re.S)
                        vname, rest = mv.group(1), mv.group(2).strip()
                        discr = nxt
                        if rest.startswith('{'):
                            ee = match_close(rest, 0)
                            vk, vf = 'named', parse_fields_named(rest[1:ee])
                            rest = rest[ee + 1:].strip()
                        elif rest.startswith('('):
                            ee = match_close(rest, 0)
                            vk, vf = 'tuple', len(split_top(rest[1:ee]))
                            rest = rest[ee + 1:].strip()
                        else:
                            vk, vf = 'unit', 0
                        md = re.match(r'^=\s*(-?\d+)', rest)
                        if md:
                            discr = int(md.group(1))
                        adt.variants.append((vname, vk, vf, discr))
                        nxt = discr + 1
            self.adts.setdefault(name, []).append(adt)

    def add_builtin_enum(self, name, variants, mod=('std',)):
        adt = Adt(name, 'enum', '<builtin>', list(mod))
        for i, v in enumerate(variants):
            if isinstance(v, tuple):
                adt.variants.append(v)
            else:
                adt.variants.append((v, 'tuple', 1, i))
        self.adts.setdefault(name, []).append(adt)
        return adt

    def find_adt(self, segs, prefer_crate=None):
        """segs: path segments without generics, e.g. ['types','Utxo'] ; returns Adt or None.
        prefer_crate: crate ident of the MIR body naming the type (trimmed paths are relative to it)"""
        cands = self.adts.get(segs[-1], [])
        if not cands:
            return None
        if len(cands) == 1:
            return cands[0]
        if prefer_crate and len(segs) == 1:
            own = [c for c in cands if c.mod and c.mod[0] == prefer_crate]
            if len(own) == 1:
                return own[0]
        best, score = None, -1
        for c in cands:
            s = sum(1 for x in segs[:-1] if x in c.mod)
            # prefer exact suffix match of module path
            if segs[:-1] and c.mod[-len(segs[:-1]):] == segs[:-1]:
                s += 10
            if s > score:
                best, score = c, s
        tied = [c for c in cands if c is not best and
                (sum(1 for x in segs[:-1] if x in c.mod) + (10 if segs[:-1] and c.mod[-len(segs[:-1]):] == segs[:-1] else 0)) == score]
        if tied:
            # same layout -> harmless
            same = all((t.kind, t.fields, t.variants) == (best.kind, best.fields, best.variants) for t in tied)
            if not same:
                return ('ambiguous', [best] + tied)
        return best

    # ---------------------------------------------------------------- impl headers
    def impl_header(self, file, l1, c1, l2, c2):
        key = (file, l1, c1, l2, c2)
        if key in self.impl_cache:
            return self.impl_cache[key]
        lines = self.text(file).split('\n')
        if l1 == l2:
            txt = lines[l1 - 1][c1 - 1:c2 - 1]
        else:
            txt = '\n'.join([lines[l1 - 1][c1 - 1:]] + lines[l1:l2 - 1] + [lines[l2 - 1][:c2 - 1]])
        txt = ' '.join(txt.split())
        res = None
        uses = self.use_aliases(file)
        if txt.startswith('impl') or txt.startswith('unsafe impl'):
            t = txt[txt.index('impl') + 4:].strip()
            if t.startswith('<'):
                t = t[match_close(t, 0) + 1:].strip()
            t = re.split(r'\bwhere\b', t)[0].strip()
            # split ' for ' at top level
            tr, ty = None, t
            for i, c, d in scan_top(t):
                if d == 0 and t.startswith(' for ', i):
                    tr, ty = t[:i].strip(), t[i + 5:].strip()
                    break
            hty = self.head(ty)
            if hty not in self.adts:          # a `type X = ..` alias applies only if no struct/enum X is declared
                hty = self.aliases.get(hty, hty)
            htr = self.head(tr) if tr else None
            htr = uses.get(htr, htr)
            hty = uses.get(hty, hty)
            res = (htr, hty, ty)
        else:
            # derive(...) span: the trait name; the type is the next struct/enum declared after the line
            tr = txt.split('::')[-1]
            ty = None
            for k in range(l1 - 1, min(len(lines), l1 + 40)):
                m = re.search(r'\b(struct|enum)\s+(\w+)', lines[k])
                if m:
                    ty = m.group(2)
                    break
            res = (tr, ty, ty)
        self.impl_cache[key] = res
        return res

    def use_aliases(self, file):
        """`use path::Real as Alias` renames of a source file: Alias -> Real"""
        key = ('uses', file)
        if key not in self.impl_cache:
            m = {}
            for real, alias in re.findall(r'\b(\w+)\s+as\s+(\w+)\s*[,;}]', strip_comments(self.text(file))):
                if real not in ('self', 'crate', 'super', '_') and alias != '_':
                    m[alias] = real
            self.impl_cache[key] = m
        return self.impl_cache[key]

    @staticmethod
    def head(ty):
        """last path segment of a type, generics removed; &T, [T], tuples kept symbolic"""
        ty = ty.strip()
        while ty.startswith('&'):
            ty = ty[1:].strip()
            if ty.startswith("'"):
                ty = ty.split(' ', 1)[1] if ' ' in ty else ty
            if ty.startswith('mut '):
                ty = ty[4:]
        if ty.startswith('dyn '):
            ty = ty[4:]
        if ty.startswith('['):
            return '[T]'
        if ty.startswith('('):
            return '(tuple)'
        s = strip_generics(ty)
        return s.split('::')[-1].strip()
