"""Ledger model layer: transactions, blocks, scripts, addresses and the stable maps of the UTXO set.

What is *real* (executed from the MIR): UtxoSet::{ingest_block(+continue), ingest_tx_with_slicing, remove_inputs, insert_outputs,
insert_utxo, get_balance, get_utxo, get_address_outpoints}, UtxosDelta::*, OutPointsCache::*, insert_outpoints, AddressUtxoSet::*,
MultiIter::next, TxOut::from(&bitcoin::TxOut), Utxo ordering, unstable_blocks::{push, pop}.
What is *modelled* (contract in the docstring of each stub):
  * SHA-256d ids -> injective integer names; scripts -> an address name, '' (non-standard) or 'OP_RETURN';
  * Utxos (three size classes over byte-encoded stable maps) -> one finite map OutPoint -> (TxOut, Height);
  * the address index StableBTreeMap<Blob, ()> -> finite map keyed by AddressUtxo values ordered as their byte encoding orders
    them: address, height DESCENDING, outpoint (txid, then vout by its little-endian bytes); the scan range of an address = its own keys from the offset on
    (this is exactly what C01 kernel k1 decides at byte level);
  * balances StableBTreeMap<Address, u64> -> finite map.
"""
import z3
from .interp import (Agg, Cell, SInt, Ref, VecV, SliceRef, StrV, Opaque, UNIT, Native, Panic, Unsupported, PyFn, some, none, ok, err,
                     tup, clone, deep_clone, zt)
from .models_std import deref, as_slice, MODELS
from .models_coll import MapV, SetV, CMP_HOOKS, RANGE_HOOKS, cmp_values
from . import harness as H, btc

MAXH = (1 << 32) - 1


def txid(i):
    return Agg('Txid', [Cell(SInt(i, 'u64'))])


def outpoint(tx, vout):
    return Agg('OutPoint', [Cell(txid(tx)), Cell(SInt(vout, 'u32'))])


def op_key(op):
    op = deref(op)
    return (op.fields[0].v.fields[0].v.t, op.fields[1].v.t)


def address(name):
    return Agg('Address', [Cell(StrV(name))])


def script(kind):
    return Agg('ScriptBuf', [Cell(StrV(kind))])


class Ledger:
    """builders + stubs bound to one Interp"""
    def __init__(self, it, prog, net=2):
        self.it, self.prog, self.net = it, prog, net
        self.d_txin = prog.src.find_adt(['bitcoin', 'blockdata', 'transaction', 'TxIn'])
        self.d_txout = prog.src.find_adt(['bitcoin', 'blockdata', 'transaction', 'TxOut'])
        self.sizes = {}
        self.install()

    # ---- values
    def btc_txout(self, value, kind):
        vals = dict(value=Agg('Amount', [Cell(value if isinstance(value, SInt) else SInt(value, 'u64'))]), script_pubkey=script(kind))
        return Agg('TxOut', [Cell(vals[f]) for f in self.d_txout.fields])

    def txin(self, prev_tx, prev_vout):
        vals = dict(previous_output=outpoint(prev_tx, prev_vout), script_sig=Opaque('sig'), sequence=Opaque('seq'), witness=Opaque('wit'))
        return Agg('TxIn', [Cell(vals[f]) for f in self.d_txin.fields])

    def tx(self, tid, inputs, outputs, vsize=None):
        """inputs: list of (txid, vout) ; [] = coinbase.  outputs: list of (value, script kind)"""
        coinbase = not inputs
        ins = VecV([Cell(self.txin(0, MAXH))] if coinbase else [Cell(self.txin(a, b)) for a, b in inputs])
        outs = VecV([Cell(self.btc_txout(v, k)) for v, k in outputs])
        vs = vsize if vsize is not None else SInt(100, 'usize')
        return Agg('Transaction', [Cell(SInt(tid, 'u64')), Cell(coinbase), Cell(ins), Cell(outs), Cell(vs)])

    def block(self, bid, parent, txs, time=0):
        d = self.prog.src.find_adt(['bitcoin', 'blockdata', 'block', 'Header'])
        vals = dict(version=Opaque('v'), prev_blockhash=btc.bh(parent), merkle_root=Opaque('m'), time=SInt(time, 'u32'), bits=Opaque('bits'),
                    nonce=SInt(bid, 'u32'))
        hdr = Agg('Header', [Cell(vals[f]) for f in d.fields])
        return Agg('Block', [Cell(SInt(bid, 'u64')), Cell(hdr), Cell(VecV([Cell(t) for t in txs]))])

    def utxo_set(self, next_height, slicer=None):
        prog = self.prog
        us = H.mk_struct(prog, 'UtxoSet', utxos=Agg('Utxos', [Cell(MapV('BTreeMap'))]), network=btc.network(prog, self.net),
                         address_utxos=MapV('StableBTreeMap'), balances=MapV('StableBTreeMap'),
                         next_height=next_height if isinstance(next_height, SInt) else SInt(next_height, 'u32'),
                         should_time_slice=PyFn(slicer or (lambda it: False)), ingesting_block=none())
        return us

    def seed_utxo(self, us, tx_id, vout, value, kind, height):
        """put a UTXO into the stable set the way a finished ingestion leaves it (utxos map, address index, balance)"""
        it, prog = self.it, self.prog
        op = outpoint(tx_id, vout)
        txo = H.mk_struct(prog, 'types::TxOut', value=value if isinstance(value, SInt) else SInt(value, 'u64'),
                          script_pubkey=VecV([Cell(StrV(kind))]))
        h = height if isinstance(height, SInt) else SInt(height, 'u32')
        H.get_field(prog, us, 'UtxoSet', 'utxos').v.fields[0].v.insert(it, op, tup(txo, h))
        if kind and kind != 'OP_RETURN':
            au = H.mk_struct(prog, 'types::AddressUtxo', address=address(kind), height=h, outpoint=deep_clone(op))
            H.get_field(prog, us, 'UtxoSet', 'address_utxos').v.insert(it, au, UNIT)
            bal = H.get_field(prog, us, 'UtxoSet', 'balances').v
            old = bal.get(it, address(kind))
            v = value.t if isinstance(value, SInt) else value
            bal.insert(it, address(kind), SInt((old.v.t if old is not None else 0) + v, 'u64'))

    # ---- stubs
    def install(self):
        it, prog = self.it, self.prog
        ov = it.overrides
        T = lambda a: deref(a)
        # transaction / block accessors of ic_btc_types
        ov['Transaction::is_coinbase'] = lambda it_, k, r, a: T(a[0]).fields[1].v
        ov['Transaction::input'] = lambda it_, k, r, a: as_slice(T(a[0]).fields[2].v)
        ov['Transaction::output'] = lambda it_, k, r, a: as_slice(T(a[0]).fields[3].v)
        ov['Transaction::txid'] = lambda it_, k, r, a: txid(T(a[0]).fields[0].v.t)
        ov['Transaction::vsize'] = lambda it_, k, r, a: T(a[0]).fields[4].v
        # the other size notions of a transaction are different numbers (witness data counts fully in total_size, not at all in
        # base_size): symbols of their own, related to vsize only by base_size <= vsize <= total_size
        def other_size(which):
            def f(it_, k, r, a):
                t = T(a[0])
                key = (which, t.fields[0].v.t)
                if key not in self.sizes:
                    v = t.fields[4].v.t
                    if isinstance(v, int):
                        # concrete alternatives (no witness data: equal; with witness data: different) keep fee / size linear
                        alt = v + 37 if which == 'total_size' else max(1, v - 13)
                        self.sizes[key] = SInt([v, alt][it_.choose(2, which)], 'usize')
                    else:
                        x = it_.fresh('%s_%s' % (which, t.fields[0].v.t), 'usize', 1, 1 << 32)
                        it_.assume(zt(x.t) >= zt(v) if which == 'total_size' else zt(x.t) <= zt(v))
                        self.sizes[key] = x
                return self.sizes[key]
            return f
        ov['Transaction::total_size'] = ov['Transaction::size'] = other_size('total_size')
        ov['Transaction::base_size'] = other_size('base_size')
        ov['Block::txdata'] = lambda it_, k, r, a: as_slice(T(a[0]).fields[2].v)
        ov['Block::block_hash'] = lambda it_, k, r, a: Ref(Cell(btc.bh(T(a[0]).fields[0].v.t)))
        ov['Block::header'] = lambda it_, k, r, a: Ref(T(a[0]).fields[1])
        ov['Block::difficulty'] = lambda it_, k, r, a: SInt(1, 'u128')
        ov['Block::new'] = lambda it_, k, r, a: a[0]
        ov['<Block as Clone>::clone'] = lambda it_, k, r, a: T(a[0])
        # outpoints / amounts / scripts
        ov['OutPoint::is_null'] = lambda it_, k, r, a: T(a[0]).fields[0].v.fields[0].v.t == 0
        ov['<OutPoint as From>::from'] = ov['<&OutPoint as Into>::into'] = ov['<OutPoint as Into>::into'] = lambda it_, k, r, a: deep_clone(T(a[0]))
        ov['OutPoint::new'] = lambda it_, k, r, a: Agg('OutPoint', [Cell(a[0]), Cell(a[1])])
        ov['<Txid as Into>::into'] = ov['<Txid as From>::from'] = lambda it_, k, r, a: deep_clone(T(a[0]))
        ov['Amount::to_sat'] = lambda it_, k, r, a: T(a[0]).fields[0].v
        ov['ScriptBuf::to_bytes'] = ov['Script::to_bytes'] = lambda it_, k, r, a: VecV([Cell(StrV(T(a[0]).fields[0].v.s))])
        ov['Script::from_bytes'] = lambda it_, k, r, a: script(as_slice(a[0]).cells()[0].v.s)
        ov['<ScriptBuf as Deref>::deref'] = ov['ScriptBuf::as_script'] = lambda it_, k, r, a: T(a[0])
        ov['Script::is_op_return'] = ov['ScriptBuf::is_op_return'] = lambda it_, k, r, a: T(a[0]).fields[0].v.s == 'OP_RETURN'

        def from_script(it_, k, r, a):
            kind = T(a[0]).fields[0].v.s
            if kind and kind != 'OP_RETURN':
                return ok(address(kind))
            return err(Agg('InvalidAddress', []))
        ov['Address::from_script'] = from_script
        ov['<TxOut as Clone>::clone'] = lambda it_, k, r, a: deep_clone(T(a[0]))
        # Utxos: one finite map
        um = lambda a: T(a[0]).fields[0].v

        def utxos_insert(it_, k, r, a):
            return um(a).insert(it_, a[1], a[2]) is not None
        ov['Utxos::insert'] = utxos_insert
        ov['Utxos::get'] = lambda it_, k, r, a: (lambda c: none() if c is None else some(deep_clone(c.v)))(um(a).get(it_, T(a[1])))
        ov['Utxos::remove'] = lambda it_, k, r, a: (lambda v: none() if v is None else some(v))(um(a).remove(it_, T(a[1])))
        ov['Utxos::len'] = lambda it_, k, r, a: SInt(len(um(a).entries), 'u64')
        # address index keys at struct level
        ov['<AddressUtxo as Storable>::to_bytes'] = lambda it_, k, r, a: deep_clone(T(a[0]))
        ov['<Blob as TryFrom>::try_from'] = lambda it_, k, r, a: ok(a[0])
        ov['AddressUtxo::from_bytes'] = ov['<AddressUtxo as Storable>::from_bytes'] = \
            lambda it_, k, r, a: deep_clone(a[0].f(0) if isinstance(a[0], Agg) and a[0].ty == 'Cow' else T(a[0]))
        ov['Blob::as_slice'] = lambda it_, k, r, a: T(a[0])
        ov['AddressUtxoRange::new'] = lambda it_, k, r, a: Agg('AddressUtxoRangeModel', [Cell(deep_clone(T(a[0]))), Cell(deep_clone(T(a[1])))])
        ov['<Cow as AsRef>::as_ref'] = lambda it_, k, r, a: T(a[0])
        ov['DUPLICATE_TX_IDS'] = lambda it_: Ref(Cell(Agg('[]', [])))
        ov['<DUPLICATE_TX_IDS as Deref>::deref'] = lambda it_, k, r, a: Ref(Cell(Agg('[]', [])))


def au_cmp(it, a, b):
    """order of the address index keys = order of their byte encoding: address, height descending, outpoint"""
    a, b = deref(a), deref(b)
    sa, sb = a.fields[0].v.fields[0].v.s, b.fields[0].v.fields[0].v.s
    if sa != sb:
        return -1 if sa < sb else 1
    ha, hb = a.fields[1].v.t, b.fields[1].v.t
    if isinstance(ha, int) and isinstance(hb, int):
        if ha != hb:
            return -1 if ha > hb else 1
    else:
        if it.branch(zt(ha) > zt(hb)):
            return -1
        if it.branch(zt(ha) < zt(hb)):
            return 1
    # outpoint: 32 txid bytes, then the vout in LITTLE-endian bytes (OutPoint::to_bytes) - not the numeric order of vout
    oa, ob = a.fields[2].v, b.fields[2].v
    c = cmp_values(it, oa.fields[0].v, ob.fields[0].v)
    if c != 0:
        return c
    va, vb = oa.fields[1].v.t, ob.fields[1].v.t
    if isinstance(va, int) and isinstance(vb, int):
        ka, kb = va.to_bytes(4, 'little'), vb.to_bytes(4, 'little')
        return -1 if ka < kb else (1 if ka > kb else 0)
    for i in range(4):
        xa, xb = (zt(va) / (1 << (8 * i))) % 256, (zt(vb) / (1 << (8 * i))) % 256
        if it.branch(xa < xb):
            return -1
        if it.branch(xa > xb):
            return 1
    return 0


CMP_HOOKS['AddressUtxo'] = au_cmp


def au_range(it, r):
    addr, off = r.fields[0].v, r.fields[1].v
    if off.variant == 1:
        u = off.fields[0].v           # types::Utxo {height, outpoint, value}
        lo = Agg('AddressUtxo', [Cell(addr), Cell(u.fields[0].v), Cell(u.fields[1].v)])
    else:
        lo = Agg('AddressUtxo', [Cell(addr), Cell(SInt(MAXH, 'u32')), Cell(outpoint(-1, 0))])
    hi = Agg('AddressUtxo', [Cell(addr), Cell(SInt(0, 'u32')), Cell(outpoint(1 << 62, MAXH))])
    return ('included', lo), ('included', hi)


RANGE_HOOKS['AddressUtxoRangeModel'] = au_range
