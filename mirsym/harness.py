"""Shared plumbing of the checks: MIR regeneration from /repo, program loading, evidence, known findings."""
import hashlib, json, os, subprocess, sys, time
from .interp import Program, Agg, Cell, SInt, Unsupported
from . import models_std, models_coll  # noqa: F401  (register the std / collection models)

REPO = os.environ.get('VERIF_REPO', '/repo')
VERIF = os.path.dirname(os.path.dirname(os.path.abspath(__file__)))
BUILD = os.path.join(VERIF, '.build')

CRATES = {
    # name: (cargo package, source dir relative to repo, crate ident)
    'canister': ('ic-btc-canister', 'canister/src', 'ic_btc_canister'),
    'validation': ('ic-btc-validation', 'validation/src', 'ic_btc_validation'),
    'watchdog': ('watchdog', 'watchdog/src', 'watchdog'),
    'interface': ('ic-btc-interface', 'interface/src', 'ic_btc_interface'),
    'types': ('ic-btc-types', 'types/src', 'ic_btc_types'),
    'cdk': ('ic-cdk-bitcoin-canister', 'ic-cdk-bitcoin-canister/src', 'ic_cdk_bitcoin_canister'),
}


def source_hash(crate):
    h = hashlib.sha256()
    base = os.path.join(REPO, CRATES[crate][1])
    for root, _, fs in sorted(os.walk(base)):
        for f in sorted(fs):
            if f.endswith('.rs'):
                p = os.path.join(root, f)
                h.update(p.encode())
                h.update(open(p, 'rb').read())
    return h.hexdigest()[:16]


def gen_mir(crate):
    """(re)emit the MIR of `crate` from /repo's working tree; returns the path of the dump.
    The dump is regenerated on every call: a nonce cfg forces rustc to run even if cargo thinks the crate is fresh."""
    os.makedirs(BUILD, exist_ok=True)
    pkg = CRATES[crate][0]
    out = os.path.join(BUILD, '%s.mir' % crate)
    nonce = 'verif_nonce_%d_%d' % (os.getpid(), int(time.time() * 1000) % 10 ** 9)
    env = dict(os.environ, CARGO_NET_OFFLINE='true', RUSTFLAGS='')
    env.pop('RUSTFLAGS')
    cmd = ['cargo', '+nightly', 'rustc', '--offline', '--lib', '-p', pkg, '--target-dir', os.path.join(BUILD, 'mir'),
           '--', '-Zunpretty=mir', '-C', 'overflow-checks=on', '-C', 'debug-assertions=off', '-Awarnings', '--cfg', nonce]
    t0 = time.time()
    # serialise concurrent checks on the shared target dir
    import fcntl
    with open(os.path.join(BUILD, 'mir.lock'), 'w') as lk:
        fcntl.flock(lk, fcntl.LOCK_EX)
        p = subprocess.run(cmd, cwd=REPO, env=env, stdout=subprocess.PIPE, stderr=subprocess.PIPE)
    if p.returncode != 0 or not p.stdout:
        sys.stderr.write(p.stderr.decode()[-3000:])
        raise Unsupported('MIR generation failed for %s (rc=%d)' % (crate, p.returncode))
    tmp = out + '.%d' % os.getpid()
    with open(tmp, 'wb') as f:
        f.write(p.stdout)
    os.replace(tmp, out)
    return out, round(time.time() - t0, 1)


def load_program(crates, decl_crates=('canister', 'types', 'interface', 'validation')):
    prog = Program(REPO)
    info = {}
    for c in set(decl_crates) | set(crates):
        prog.src.load_crate(CRATES[c][2], CRATES[c][1])
    for c in crates:
        path, secs = gen_mir(c)
        prog.load_mir(path, CRATES[c][2])
        info[c] = dict(mir_lines=sum(1 for _ in open(path)), mir_gen_s=secs, source_sha=source_hash(c))
    prog.info = info
    return prog


def mk_struct(prog, name, **fields):
    segs = name.split('::')
    d = prog.src.find_adt(segs)
    if d is None or isinstance(d, tuple) or d.kind != 'struct':
        raise Unsupported('mk_struct: unknown struct %s' % name)
    missing = [f for f in d.fields if f not in fields]
    extra = [f for f in fields if f not in d.fields]
    if missing or extra:
        raise Unsupported('mk_struct %s: fields changed (missing %s, unknown %s)' % (name, missing, extra))
    return Agg(d.name, [Cell(fields[f]) for f in d.fields])


def get_field(prog, agg, sname, fname):
    d = prog.src.find_adt(sname.split('::'))
    return agg.fields[d.fields.index(fname)]


def mk_variant(prog, ename, vname, *vals, **named):
    d = prog.src.find_adt(ename.split('::'))
    if d is None or isinstance(d, tuple) or d.kind != 'enum':
        raise Unsupported('mk_variant: unknown enum %s' % ename)
    _, (vn, vk, vf, discr) = d.variant(vname)
    if vk == 'named':
        return Agg(d.name, [Cell(named[f]) for f in vf], discr)
    return Agg(d.name, [Cell(v) for v in vals], discr)


def variant_discr(prog, ename, vname):
    d = prog.src.find_adt(ename.split('::'))
    return d.variant(vname)[1][3]


# ------------------------------------------------------------------------------ tree shapes
def all_shapes(n):
    """arrival-ordered trees with n nodes: node k (2..n) chooses its parent among 1..k-1; children are kept in
    arrival order, so this enumerates every (shape, arrival order) once: (n-1)! arrays"""
    if n == 1:
        yield []
        return
    for rest in all_shapes(n - 1):
        for p in range(1, n):
            yield rest + [p]


def children_of(parents):
    n = len(parents) + 1
    ch = {i: [] for i in range(1, n + 1)}
    for k, p in enumerate(parents):
        ch[p].append(k + 2)
    return ch


# ------------------------------------------------------------------------------ known findings / evidence
def load_known(prop):
    p = os.path.join(VERIF, 'known_findings.json')
    if not os.path.exists(p):
        return []
    data = json.load(open(p))
    return [f for f in data.get('findings', []) if f['property'] == prop and f.get('status') == 'known']


class Report:
    """collects what a check did and writes the evidence file"""
    def __init__(self, prop, tier):
        self.prop, self.tier = prop, tier
        self.seed = int(os.environ.get('VERIF_SEED', '0') or 0)
        self.t0 = time.time()
        self.cov = dict(states=0, transitions=0, traces_validated_against_impl=0, samples=[], queries=0,
                        unsat=0, sat=0, solver_s=0.0, witnesses=0, functions_encoded=[], bounds={}, stubs=[],
                        shapes=0, kernels={})
        self.assumptions = []
        self.violations = []
        self.known_hit = []
        self.inconclusive = None

    def add_stats(self, st, kernel=None):
        d = st.as_dict()
        self.cov['states'] += d['paths']
        self.cov['transitions'] += d['mir_blocks']
        self.cov['queries'] += d['queries']
        self.cov['solver_s'] = round(self.cov['solver_s'] + d['solver_s'], 2)
        if kernel:
            k = self.cov['kernels'].setdefault(kernel, dict(paths=0, queries=0, mir_blocks=0, panics=0, solver_s=0.0))
            for a in ('paths', 'queries', 'mir_blocks', 'panics'):
                k[a] += d[a]
            k['solver_s'] = round(k['solver_s'] + d['solver_s'], 2)

    def sample(self, s, cap=6):
        if len(self.cov['samples']) < cap:
            self.cov['samples'].append(s)

    def write(self, level='model_checking'):
        os.makedirs(os.path.join(VERIF, 'evidence'), exist_ok=True)
        self.cov['states'] = max(self.cov['states'], 0)
        ev = dict(property_id=self.prop, tier=self.tier, seed=self.seed, level=level, coverage=self.cov,
                  assumptions=self.assumptions, wall_s=round(time.time() - self.t0, 1),
                  violations=len(self.violations))
        if self.inconclusive:
            ev['coverage']['inconclusive'] = self.inconclusive
        if self.known_hit:
            ev['coverage']['known_findings_reproduced'] = self.known_hit
        with open(os.path.join(VERIF, 'evidence', '%s.json' % self.prop), 'w') as f:
            json.dump(ev, f, indent=1, default=str)

    def finish(self):
        """print verdict lines, write evidence, return exit code"""
        rc = 0
        if self.inconclusive:
            print('INCONCLUSIVE property=%s reason=%s' % (self.prop, self.inconclusive))
            rc = 2
        for k in self.known_hit:
            print('KNOWN-FINDING: property=%s %s' % (self.prop, k))
        for v in self.violations:
            print('VIOLATION property=%s replay=%s' % (self.prop, v))
            rc = 1
        self.write()
        return rc
