"""Bitcoin-canister specific scenario builders and stubs (the trusted base of DESIGN.md §3.3).

Every stub is registered by name through `install(it, names)` so that each check can list exactly the stubs
it relied on in its evidence file."""
import glob, os, re
import z3
from .interp import (Agg, Cell, SInt, Ref, VecV, SliceRef, StrV, Opaque, UNIT, Native, Closure, Panic, Unsupported,
                     some, none, ok, err, tup, scal, clone, deep_clone, MODELS, model, i_ite, b_and, b_or, b_not, zt)
from .models_std import deref, as_slice, ListIter, values_eq
from . import harness as H

NETS = ['Mainnet', 'Testnet', 'Regtest']


def load_dep_decls(prog):
    """field / variant order of the `bitcoin` dependency's types, read from the vendored registry sources"""
    roots = glob.glob(os.path.expanduser('~/.cargo/registry/src/*/bitcoin-dogecoin-0.32.7-doge.0/src'))
    if not roots:
        roots = glob.glob(os.path.expanduser('~/.cargo/registry/src/*/bitcoin-dogecoin-*/src'))
    if not roots:
        raise Unsupported('bitcoin dependency sources not found')
    for f in ('blockdata/block.rs', 'blockdata/transaction.rs', 'network.rs', 'pow.rs'):
        p = os.path.join(roots[0], f)
        if os.path.exists(p):
            prog.src.load_file(p, ['bitcoin'] + f[:-3].split('/'))
    for p in glob.glob(os.path.expanduser('~/.cargo/registry/src/*/ic-stable-structures-*/src/storable.rs'))[:1]:
        prog.src.load_file(p, ['ic_stable_structures', 'storable'])


def bh(i):
    """a block hash: injective name of block i (SHA-256d is replaced by the identity of the block)"""
    return Agg('BlockHash', [Cell(SInt(i, 'u64'))])


def bh_id(v):
    v = deref(v)
    t = v.fields[0].v.t
    if not isinstance(t, int):
        t = z3.simplify(t)
        t = t.as_long() if z3.is_int_value(t) else t
    return t


def network(prog, i):
    d = prog.src.find_adt(['ic_btc_interface', 'Network'])
    return Agg('Network', [], d.variants[i][3])


def mk_header(prog, prev, time, bits=None):
    return H.mk_struct(prog, 'bitcoin::block::Header', version=Opaque('version'), prev_blockhash=prev,
                       merkle_root=Opaque('merkle'), time=time, bits=bits if bits is not None else Opaque('bits'),
                       nonce=Opaque('nonce'))


class TreeScenario:
    """a concrete arrival-ordered tree shape with symbolic per-block scalars"""

    def __init__(self, parents, prefix=''):
        self.parents = parents
        self.n = len(parents) + 1
        self.ch = H.children_of(parents)
        self.par = {k + 2: p for k, p in enumerate(parents)}
        self.d = {i: z3.Int('%sd%d' % (prefix, i)) for i in range(1, self.n + 1)}
        self.t = {i: z3.Int('%st%d' % (prefix, i)) for i in range(1, self.n + 1)}
        self.leaves = [i for i in range(1, self.n + 1) if not self.ch[i]]
        # DFS preorder with children in arrival order
        self.pre = {}
        st = [1]
        while st:
            x = st.pop()
            self.pre[x] = len(self.pre)
            st.extend(reversed(self.ch[x]))

    def assume_ranges(self, it, dmax=1 << 100):
        for i in self.d:
            if not isinstance(self.d[i], int):
                it.declare_bounds(self.d[i], 1, dmax - 1)
            if not isinstance(self.t[i], int):
                it.declare_bounds(self.t[i], 0, (1 << 32) - 1)

    def path(self, i):
        r = []
        while True:
            r.append(i)
            if i == 1:
                return r[::-1]
            i = self.par[i]

    def height(self, i):
        return len(self.path(i)) - 1

    def depth(self, i):
        return 1 + max([self.depth(c) for c in self.ch[i]], default=0)

    def work(self, i):
        """accumulated difficulty of the path root..i"""
        return sum((self.d[j] for j in self.path(i)[1:]), self.d[1])

    def subtree_work(self, i):
        """max accumulated difficulty of a chain starting at i (i included)"""
        if not self.ch[i]:
            return self.d[i]
        ws = [self.subtree_work(c) for c in self.ch[i]]
        m = ws[0]
        for w in ws[1:]:
            m = z3.If(w > m, w, m)
        return self.d[i] + m

    def is_best(self, l):
        """oracle (C02 text): leaf l ends the branch with the greatest accumulated difficulty; ties: more blocks,
        then the branch received first (the child that arrived first where the branches diverge)"""
        conds = []
        wl, ll = self.work(l), len(self.path(l))
        for o in self.leaves:
            if o == l:
                continue
            wo, lo = self.work(o), len(self.path(o))
            better = z3.Or(wl > wo, z3.And(wl == wo, z3.BoolVal(ll > lo)))
            tie = z3.And(wl == wo, z3.BoolVal(ll == lo))
            conds.append(z3.Or(better, z3.And(tie, z3.BoolVal(self.pre[l] < self.pre[o]))))
        return z3.And(*conds) if conds else z3.BoolVal(True)

    def build_tree(self, it, prog, fee_rates=None, utxo_delta=None):
        nodes = {}
        self.blocks = {}
        for i in range(1, self.n + 1):
            hdr = mk_header(prog, bh(self.par.get(i, 0)), SInt(self.t[i], 'u32'))
            cb = H.mk_struct(prog, 'CachedBlock', cache=Opaque('cache'), difficulty=SInt(self.d[i], 'u128'),
                             block_hash=bh(i), header=hdr,
                             fee_rates=(fee_rates[i] if fee_rates else none()),
                             utxo_delta=(utxo_delta[i] if utxo_delta else SInt(0, 'i64')))
            self.blocks[i] = cb
            nodes[i] = H.mk_struct(prog, 'BlockTree', root=cb, children=VecV())
        for k, p in enumerate(self.parents):
            H.get_field(prog, nodes[p], 'BlockTree', 'children').v.cells.append(Cell(nodes[k + 2]))
        self.nodes = nodes
        return nodes[1]

    def build_unstable(self, it, prog, thr, net, tree=None, outpoints_cache=None, next_block_headers=None):
        tree = tree or self.build_tree(it, prog)
        # state invariant of UnstableBlocks: tip_depths_cache == tree.tip_depths() (same stack order as BlockTree::tip_depths)
        depths, stack = [], [(1, 1)]
        while stack:
            node, dep = stack.pop()
            if not self.ch[node]:
                depths.append(dep)
            else:
                for c in self.ch[node]:
                    stack.append((c, dep + 1))
        tip_depths = VecV([Cell(SInt(x, 'usize')) for x in depths])
        return H.mk_struct(prog, 'GenericUnstableBlocks', stability_threshold=thr, tree=tree,
                           outpoints_cache=outpoints_cache if outpoints_cache is not None else Opaque('outpoints_cache'),
                           network=network(prog, net),
                           next_block_headers=next_block_headers if next_block_headers is not None else Opaque('nbh'),
                           tip_depths_cache=tip_depths)

    def descriptor(self):
        return ('tree', list(self.parents))

    def describe(self, model=None):
        d = dict(parents=self.parents)
        if model is not None:
            d['difficulty'] = {i: model.eval(self.d[i], model_completion=True).as_long() for i in self.d}
        return d


def chain_ids(chain):
    """ids of a BlockChain<'_, CachedBlock> value (first + successors)"""
    first = deref(chain.fields[0].v)
    out = [block_id(first)]
    for c in chain.fields[1].v.cells:
        out.append(block_id(deref(c.v)))
    return out


def block_id(cb):
    cb = deref(cb)
    for f in cb.fields:
        if isinstance(f.v, Agg) and f.v.ty == 'BlockHash':
            return bh_id(f.v)
    raise Unsupported('block without hash %r' % (cb,))


# -------------------------------------------------------------------------------- stubs (installed per check)
STUBS = {}


def stub(name, *keys, doc=''):
    def deco(f):
        STUBS[name] = (keys, f, doc or (f.__doc__ or '').strip())
        return f
    return deco


def install(it, names):
    for n in names:
        keys, f, _ = STUBS[n]
        for k in keys:
            it.overrides[k] = f


def stub_docs(names):
    return ['%s: %s' % (n, STUBS[n][2]) for n in names]


@stub('print', 'print', 'runtime::print', 'printer::print')
def _print(it, key, raw, args):
    """runtime::print has an empty body (not observable)"""
    return UNIT


@stub('perf_counter', 'performance_counter', 'runtime::performance_counter', 'inc_performance_counter',
      'runtime::inc_performance_counter')
def _perf(it, key, raw, args):
    """performance_counter()/inc_performance_counter() return fresh non-decreasing symbolic u64 values"""
    n = it.globals.setdefault('perf_n', [0, None])
    v = z3.Int('perf_%d' % n[0])
    n[0] += 1
    lo = n[1] if n[1] is not None else 0
    it.assume(z3.And(v >= lo, v < (1 << 62)))
    n[1] = v
    return SInt(v, 'u64')


@stub('blockhash_to_vec', 'BlockHash::to_vec', 'BlockHash::as_bytes')
def _bh_to_vec(it, key, raw, args):
    """BlockHash::to_vec returns the (injective) byte name of the hash, modelled as a one-element vector"""
    v = deref(args[0])
    return VecV([Cell(clone(v.fields[0].v))])


@stub('blockhash_from', '<BlockHash as From>::from', '<BlockHash as Into>::into')
def _bh_from(it, key, raw, args):
    """BlockHash::from(bitcoin hash / Vec<u8>) is the identity on names"""
    v = args[0]
    if isinstance(v, VecV):
        if len(v.cells) != 1:
            raise Unsupported('BlockHash::from on a %d-element vector model' % len(v.cells))
        return Agg('BlockHash', [Cell(v.cells[0].v)])
    if isinstance(v, Agg) and v.ty == 'BlockHash':
        return v
    raise Unsupported('BlockHash::from %r' % (v,))


@stub('block_block_hash', 'Block::block_hash')
def _block_hash(it, key, raw, args):
    """ic_btc_types::Block::block_hash returns the injective id of the block model"""
    b = deref(args[0])
    return Ref(Cell(bh(b.fields[0].v.t)))


# model of the dependency's `impl From<bitcoin::Network> for NetworkKind` (network.rs: Bitcoin -> Main, every other network -> Test);
# bitcoin::Network variants are Bitcoin=0, Testnet=1, Testnet4=2, Signet=3, Regtest=4; NetworkKind is Main=0, Test=1
def _network_kind_from_network(it, v):
    from .interp import Agg
    if not isinstance(v.variant, int):
        raise Unsupported('NetworkKind::from of a network with a symbolic variant')
    return Agg('NetworkKind', [], 0 if v.variant == 0 else 1)


from .models_std import FROM_HOOKS as _FH
from .interp import type_head as _th
_FH[(_th('NetworkKind'), _th('bitcoin::Network'))] = _network_kind_from_network
_FH[(_th('bitcoin::NetworkKind'), _th('bitcoin::Network'))] = _network_kind_from_network
_FH[(_th('NetworkKind'), _th('Network'))] = _network_kind_from_network
