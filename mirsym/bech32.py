"""bech32 (BIP173, witness v0) helpers for building real address texts in replay scenarios"""
CHARSET = "qpzry9x8gf2tvdw0s3jn54khce6mua7l"


def polymod(values):
    gen = [0x3b6a57b2, 0x26508e6d, 0x1ea119fa, 0x3d4233dd, 0x2a1462b3]
    chk = 1
    for v in values:
        b = chk >> 25
        chk = (chk & 0x1ffffff) << 5 ^ v
        for i in range(5):
            chk ^= gen[i] if ((b >> i) & 1) else 0
    return chk


def hrp_expand(hrp):
    return [ord(x) >> 5 for x in hrp] + [0] + [ord(x) & 31 for x in hrp]


def create_checksum(hrp, data):
    values = hrp_expand(hrp) + data
    pm = polymod(values + [0, 0, 0, 0, 0, 0]) ^ 1
    return [(pm >> 5 * (5 - i)) & 31 for i in range(6)]


def encode(hrp, data):
    return hrp + '1' + ''.join(CHARSET[d] for d in data + create_checksum(hrp, data))


def convertbits(data, frombits, tobits, pad=True):
    acc = bits = 0
    ret = []
    maxv = (1 << tobits) - 1
    for v in data:
        acc = (acc << frombits) | v
        bits += frombits
        while bits >= tobits:
            bits -= tobits
            ret.append((acc >> bits) & maxv)
    if pad and bits:
        ret.append((acc << (tobits - bits)) & maxv)
    elif not pad and (bits >= frombits or ((acc << (tobits - bits)) & maxv)):
        return None
    return ret


def p2wpkh(hrp, prog20):
    return encode(hrp, [0] + convertbits(list(prog20), 8, 5))


def extending_p2wsh(hrp, victim):
    """a P2WSH address whose text starts with the complete text of the P2WPKH address `victim`"""
    data_chars = victim[len(hrp) + 1:]              # 'q' + 32 data chars + 6 checksum chars
    assert data_chars[0] == 'q' and len(data_chars) == 39
    five = [CHARSET.index(c) for c in data_chars[1:]] + [0] * 14       # 52 groups of 5 bits; last 4 bits are padding (zero)
    prog = convertbits(five, 5, 8, pad=False)
    assert prog is not None and len(prog) == 32
    addr = encode(hrp, [0] + five)
    assert addr.startswith(victim)
    return addr, bytes(prog)
