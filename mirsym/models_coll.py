"""Ordered-map / set models: BTreeMap, BTreeSet, HashMap, HashSet, ic_stable_structures::StableBTreeMap.

Contract assumed: the containers implement a finite map / set ordered by the key type's `Ord`
(std and ic-stable-structures are correct).  Representation: association list kept sorted by the key order.
Key comparison uses, in this order: the crate's own `Ord::cmp` body for the key type (from the MIR), else the
structural lexicographic order of the value (what `#[derive(Ord)]` yields)."""
import re
import z3
from .interp import (model, MODELS, Cell, SInt, Agg, Ref, VecV, SliceRef, StrV, Opaque, UNIT, Native, Panic, Unsupported,
                     some, none, ok, err, tup, clone, deep_clone, is_bool, type_head, b_and, b_not)
from .models_std import (deref, Iter, ListIter, into_iter, INTO_ITER_HOOKS, COLLECT_HOOKS, DEFAULT_HOOKS, default_of, drain,
                         values_eq, opt, range_bounds)
from . import models_std
from .mir import split_top


def conc_key(v):
    """python-comparable key if the value is fully concrete, else None"""
    v = deref(v)
    if isinstance(v, SInt):
        return v.t if isinstance(v.t, int) else None
    if isinstance(v, bool):
        return v
    if isinstance(v, StrV):
        return v.s
    if isinstance(v, Agg):
        out = [v.variant if v.variant is not None else 0]
        for c in v.fields:
            k = conc_key(c.v)
            if k is None:
                return None
            out.append(k)
        return tuple(out)
    if isinstance(v, (VecV, SliceRef)):
        cs = v.cells if isinstance(v, VecV) else v.cells()
        out = []
        for c in cs:
            k = conc_key(c.v)
            if k is None:
                return None
            out.append(k)
        return tuple(out)
    if hasattr(v, 'sort_key'):
        return v.sort_key()
    return None


CMP_HOOKS = {}       # ADT name -> fn(it, a, b) -> -1/0/1 : order of keys whose real order is that of a byte encoding
RANGE_HOOKS = {}     # ADT name -> fn(it, value) -> (lo_bound, hi_bound) for model range objects


def cmp_values(it, a, b):
    """three-way comparison -1/0/1 following the key type's Ord"""
    a0, b0 = deref(a), deref(b)
    if isinstance(a0, Agg) and a0.ty in CMP_HOOKS:
        return CMP_HOOKS[a0.ty](it, a0, b0)
    if isinstance(a0, Agg) and a0.ty:
        c = it.prog.traitimpl.get((a0.ty, 'Ord', 'cmp'))
        if c:
            o = it.run(it.prog.pick(c, a0.ty), [Ref(Cell(a0)), Ref(Cell(b0))])
            return o.variant
    ka, kb = conc_key(a0), conc_key(b0)
    if ka is not None and kb is not None:
        return -1 if ka < kb else (0 if ka == kb else 1)
    return cmp_struct(it, a0, b0)


def cmp_struct(it, a, b):
    a, b = deref(a), deref(b)
    if isinstance(a, SInt):
        if it.branch(a.t < b.t):
            return -1
        return 0 if it.branch(a.t == b.t) else 1
    if isinstance(a, Agg):
        if a.variant != b.variant:
            return -1 if (a.variant or 0) < (b.variant or 0) else 1
        for x, y in zip(a.fields, b.fields):
            r = cmp_values(it, x.v, y.v)
            if r:
                return r
        return 0
    if isinstance(a, (VecV, SliceRef)):
        ca, cb = it.seq_cells(a), it.seq_cells(b)
        for x, y in zip(ca, cb):
            r = cmp_values(it, x.v, y.v)
            if r:
                return r
        return -1 if len(ca) < len(cb) else (0 if len(ca) == len(cb) else 1)
    if isinstance(a, StrV):
        return -1 if a.s < b.s else (0 if a.s == b.s else 1)
    raise Unsupported('cmp_struct %r' % (a,))


class MapV(Native):
    ty = 'Map'

    def __init__(self, kind='BTreeMap'):
        self.kind = kind
        self.entries = []        # [(key value, Cell(value))] sorted

    def find(self, it, k):
        """(index, found)"""
        for i, (ek, _) in enumerate(self.entries):
            c = cmp_values(it, k, ek)
            if c == 0:
                return i, True
            if c < 0:
                return i, False
        return len(self.entries), False

    def insert(self, it, k, v):
        i, f = self.find(it, k)
        if f:
            old = self.entries[i][1].v
            self.entries[i][1].v = v
            return old
        self.entries.insert(i, (k, Cell(v)))
        return None

    def remove(self, it, k):
        i, f = self.find(it, k)
        if not f:
            return None
        return self.entries.pop(i)[1].v

    def get(self, it, k):
        i, f = self.find(it, k)
        return self.entries[i][1] if f else None

    def clone_value(self, it):
        m = MapV(self.kind)
        m.entries = [(deep_clone(k), Cell(deep_clone(c.v))) for k, c in self.entries]
        return m

    def eq_value(self, it, o):
        if len(self.entries) != len(o.entries):
            return False
        return b_and(*[b_and(values_eq(it, k1, k2), values_eq(it, c1.v, c2.v))
                       for (k1, c1), (k2, c2) in zip(self.entries, o.entries)])

    def __repr__(self):
        return '%s{%s}' % (self.kind, ', '.join('%r: %r' % (k, c.v) for k, c in self.entries))


class SetV(Native):
    ty = 'Set'

    def __init__(self, kind='BTreeSet'):
        self.kind = kind
        self.items = []

    def find(self, it, k):
        for i, ek in enumerate(self.items):
            c = cmp_values(it, k, ek)
            if c == 0:
                return i, True
            if c < 0:
                return i, False
        return len(self.items), False

    def insert(self, it, k):
        i, f = self.find(it, k)
        if f:
            return False
        self.items.insert(i, k)
        return True

    def remove(self, it, k):
        i, f = self.find(it, k)
        if f:
            self.items.pop(i)
        return f

    def clone_value(self, it):
        s = SetV(self.kind)
        s.items = [deep_clone(k) for k in self.items]
        return s

    def eq_value(self, it, o):
        if len(self.items) != len(o.items):
            return False
        return b_and(*[values_eq(it, a, b) for a, b in zip(self.items, o.items)])

    def __repr__(self):
        return '%s{%s}' % (self.kind, ', '.join(repr(k) for k in self.items))


class Entry(Native):
    ty = 'Entry'

    def __init__(self, m, k):
        self.m, self.k = m, k


MAPS = ('BTreeMap', 'HashMap', 'StableBTreeMap')
SETS = ('BTreeSet', 'HashSet')


def mm(*names, kinds=MAPS):
    def deco(f):
        for k in kinds:
            for n in names:
                MODELS['%s::%s' % (k, n)] = f
        return f
    return deco


def sm(*names):
    return mm(*names, kinds=SETS)


def M(a):
    v = deref(a)
    if not isinstance(v, (MapV, SetV)):
        raise Unsupported('expected a map/set model, got %r' % (v,))
    return v


@mm('new', 'default', 'init', 'with_capacity')
def _map_new(it, key, raw, args):
    return MapV(key[1][-2])


@sm('new', 'default', 'with_capacity')
def _set_new(it, key, raw, args):
    return SetV(key[1][-2])


for _k in MAPS:
    DEFAULT_HOOKS[_k] = (lambda kk: lambda it, ty: MapV(kk))(_k)
    MODELS['<%s as Default>::default' % _k] = (lambda kk: lambda it, key, raw, args: MapV(kk))(_k)
for _k in SETS:
    DEFAULT_HOOKS[_k] = (lambda kk: lambda it, ty: SetV(kk))(_k)
    MODELS['<%s as Default>::default' % _k] = (lambda kk: lambda it, key, raw, args: SetV(kk))(_k)


@mm('insert')
def _map_insert(it, key, raw, args):
    return opt(M(args[0]).insert(it, args[1], args[2]))


@mm('remove')
def _map_remove(it, key, raw, args):
    return opt(M(args[0]).remove(it, deref(args[1], 1)))


@mm('get')
def _map_get(it, key, raw, args):
    m = M(args[0])
    c = m.get(it, deref(args[1], 1))
    if c is None:
        return none()
    if m.kind == 'StableBTreeMap':
        return some(deep_clone(c.v))
    return some(Ref(c))


@mm('get_mut')
def _map_get_mut(it, key, raw, args):
    c = M(args[0]).get(it, deref(args[1], 1))
    return none() if c is None else some(Ref(c))


@mm('contains_key')
def _map_contains(it, key, raw, args):
    return M(args[0]).get(it, deref(args[1], 1)) is not None


@mm('len')
def _map_len(it, key, raw, args):
    m = M(args[0])
    return SInt(len(m.entries), 'u64' if m.kind == 'StableBTreeMap' else 'usize')


@mm('is_empty')
def _map_is_empty(it, key, raw, args):
    return len(M(args[0]).entries) == 0


@mm('clear', 'clear_new')
def _map_clear(it, key, raw, args):
    M(args[0]).entries[:] = []
    return UNIT


def _kv_items(m, by_ref=True):
    if m.kind == 'StableBTreeMap':
        # ic-stable-structures 0.7: iterators yield lazy entries (key(), value(), into_pair())
        return [Agg('LazyEntry', [Cell(deep_clone(k)), Cell(deep_clone(c.v))]) for k, c in m.entries]
    if by_ref:
        return [tup(Ref(Cell(k)), Ref(c)) for k, c in m.entries]
    return [tup(k, c.v) for k, c in m.entries]


@mm('iter', 'iter_mut')
def _map_iter(it, key, raw, args):
    return ListIter(_kv_items(M(args[0])))


@mm('keys')
def _map_keys(it, key, raw, args):
    m = M(args[0])
    if m.kind == 'StableBTreeMap':
        return ListIter([deep_clone(k) for k, _ in m.entries])
    return ListIter([Ref(Cell(k)) for k, _ in m.entries])


@mm('values', 'values_mut')
def _map_values(it, key, raw, args):
    m = M(args[0])
    if m.kind == 'StableBTreeMap':
        return ListIter([deep_clone(c.v) for _, c in m.entries])
    return ListIter([Ref(c) for _, c in m.entries])


@mm('into_keys')
def _map_into_keys(it, key, raw, args):
    return ListIter([k for k, _ in M(args[0]).entries])


@mm('into_values')
def _map_into_values(it, key, raw, args):
    return ListIter([c.v for _, c in M(args[0]).entries])


@mm('first_key_value')
def _map_first(it, key, raw, args):
    m = M(args[0])
    if not m.entries:
        return none()
    return some(_kv_items(m)[0])


@mm('last_key_value')
def _map_last(it, key, raw, args):
    m = M(args[0])
    if not m.entries:
        return none()
    return some(_kv_items(m)[-1])


@mm('pop_first')
def _map_pop_first(it, key, raw, args):
    m = M(args[0])
    if not m.entries:
        return none()
    k, c = m.entries.pop(0)
    return some(tup(k, c.v))


@mm('pop_last')
def _map_pop_last(it, key, raw, args):
    m = M(args[0])
    if not m.entries:
        return none()
    k, c = m.entries.pop()
    return some(tup(k, c.v))


@mm('retain')
def _map_retain(it, key, raw, args):
    m = M(args[0])
    keep = []
    for k, c in m.entries:
        if it.branch(it.call_value(args[1], [Ref(Cell(k)), Ref(c)])):
            keep.append((k, c))
    m.entries[:] = keep
    return UNIT


def bound_check(it, m_or_items, keys, rangev):
    """indices [lo, hi) of sorted `keys` inside the RangeBounds value `rangev`"""
    r = deref(rangev)
    lo_b, hi_b = range_as_bounds(it, r)
    lo = 0
    hi = len(keys)
    if lo_b[0] != 'unbounded':
        lo = len(keys)
        for i, k in enumerate(keys):
            c = cmp_values(it, k, lo_b[1])
            if c > 0 or (c == 0 and lo_b[0] == 'included'):
                lo = i
                break
    if hi_b[0] != 'unbounded':
        hi = 0
        for i in range(len(keys) - 1, -1, -1):
            c = cmp_values(it, keys[i], hi_b[1])
            if c < 0 or (c == 0 and hi_b[0] == 'included'):
                hi = i + 1
                break
    return lo, max(lo, hi)


def range_as_bounds(it, r):
    if isinstance(r, Agg):
        t = r.ty
        if t == 'Range':
            return ('included', r.f(0)), ('excluded', r.f(1))
        if t == 'RangeInclusive':
            return ('included', r.f(0)), ('included', r.f(1))
        if t == 'RangeFrom':
            return ('included', r.f(0)), ('unbounded', None)
        if t == 'RangeTo':
            return ('unbounded', None), ('excluded', r.f(0))
        if t == 'RangeToInclusive':
            return ('unbounded', None), ('included', r.f(0))
        if t == 'RangeFull':
            return ('unbounded', None), ('unbounded', None)
        if t == '()' and len(r.fields) == 2:
            return bound_of(r.f(0)), bound_of(r.f(1))
        if t in RANGE_HOOKS:
            return RANGE_HOOKS[t](it, r)
        # a crate type implementing RangeBounds
        sb = it.prog.traitimpl.get((t, 'RangeBounds', 'start_bound'))
        eb = it.prog.traitimpl.get((t, 'RangeBounds', 'end_bound'))
        if sb and eb:
            rr = Ref(Cell(r))
            return bound_of(it.run(sb[0], [rr])), bound_of(it.run(eb[0], [rr]))
    raise Unsupported('range bounds of %r' % (r,))


def bound_of(b):
    b = deref(b)
    if b.variant == 2:
        return ('unbounded', None)
    return ('included' if b.variant == 0 else 'excluded', deref(b.f(0)))


@mm('range', 'range_mut')
def _map_range(it, key, raw, args):
    m = M(args[0])
    keys = [k for k, _ in m.entries]
    lo, hi = bound_check(it, m, keys, args[1])
    return ListIter(_kv_items(m)[lo:hi])


@mm('entry')
def _map_entry(it, key, raw, args):
    return Entry(M(args[0]), args[1])


@model('Entry::or_insert')
def _entry_or_insert(it, key, raw, args):
    e = args[0]
    c = e.m.get(it, e.k)
    if c is None:
        e.m.insert(it, e.k, args[1])
        c = e.m.get(it, e.k)
    return Ref(c)


@model('Entry::or_insert_with')
def _entry_or_insert_with(it, key, raw, args):
    e = args[0]
    c = e.m.get(it, e.k)
    if c is None:
        e.m.insert(it, e.k, it.call_value(args[1], []))
        c = e.m.get(it, e.k)
    return Ref(c)


@model('Entry::or_default')
def _entry_or_default(it, key, raw, args):
    e = args[0]
    c = e.m.get(it, e.k)
    if c is None:
        m = re.match(r'^.*Entry::<(.*)>::or_default$', raw)
        parts = [p for p in split_top(m.group(1)) if not p.startswith("'")]
        e.m.insert(it, e.k, default_of(it, parts[1]))
        c = e.m.get(it, e.k)
    return Ref(c)


@model('Entry::and_modify')
def _entry_and_modify(it, key, raw, args):
    e = args[0]
    c = e.m.get(it, e.k)
    if c is not None:
        it.call_value(args[1], [Ref(c)])
    return e


@model('Entry::key')
def _entry_key(it, key, raw, args):
    return Ref(Cell(deref(args[0]).k))


def _map_into_iter(it, m, by_ref):
    return ListIter(_kv_items(m, by_ref))


def _set_into_iter(it, s, by_ref):
    return ListIter([Ref(Cell(k)) for k in s.items] if by_ref else list(s.items))


INTO_ITER_HOOKS[MapV] = _map_into_iter
INTO_ITER_HOOKS[SetV] = _set_into_iter


def _collect_map(kind):
    def f(it, vals, target):
        m = MapV(kind)
        for v in vals:
            m.insert(it, v.f(0), v.f(1))
        return m
    return f


def _collect_set(kind):
    def f(it, vals, target):
        s = SetV(kind)
        for v in vals:
            s.insert(it, v)
        return s
    return f


for _k in MAPS:
    COLLECT_HOOKS[_k] = _collect_map(_k)
for _k in SETS:
    COLLECT_HOOKS[_k] = _collect_set(_k)


@sm('insert')
def _set_insert(it, key, raw, args):
    return M(args[0]).insert(it, args[1])


@sm('remove')
def _set_remove(it, key, raw, args):
    return M(args[0]).remove(it, deref(args[1], 1))


@sm('contains')
def _set_contains(it, key, raw, args):
    return M(args[0]).find(it, deref(args[1], 1))[1]


@sm('len')
def _set_len(it, key, raw, args):
    return SInt(len(M(args[0]).items), 'usize')


@sm('is_empty')
def _set_is_empty(it, key, raw, args):
    return len(M(args[0]).items) == 0


@sm('iter')
def _set_iter(it, key, raw, args):
    return ListIter([Ref(Cell(k)) for k in M(args[0]).items])


@sm('first')
def _set_first(it, key, raw, args):
    s = M(args[0])
    return some(Ref(Cell(s.items[0]))) if s.items else none()


@sm('last')
def _set_last(it, key, raw, args):
    s = M(args[0])
    return some(Ref(Cell(s.items[-1]))) if s.items else none()


@sm('pop_first')
def _set_pop_first(it, key, raw, args):
    s = M(args[0])
    return some(s.items.pop(0)) if s.items else none()


@sm('clear')
def _set_clear(it, key, raw, args):
    M(args[0]).items[:] = []
    return UNIT


@sm('range')
def _set_range(it, key, raw, args):
    s = M(args[0])
    lo, hi = bound_check(it, s, s.items, args[1])
    return ListIter([Ref(Cell(k)) for k in s.items[lo:hi]])


@sm('retain')
def _set_retain(it, key, raw, args):
    s = M(args[0])
    s.items[:] = [k for k in s.items if it.branch(it.call_value(args[1], [Ref(Cell(k))]))]
    return UNIT


@sm('is_subset')
def _set_is_subset(it, key, raw, args):
    a, b = M(args[0]), M(args[1])
    return all(b.find(it, k)[1] for k in a.items)


def _extend_coll(it, key, raw, args):
    c = deref(args[0])
    vals = drain(it, into_iter(it, args[1]))
    if isinstance(c, MapV):
        for v in vals:
            c.insert(it, v.f(0), v.f(1))
    elif isinstance(c, SetV):
        for v in vals:
            c.insert(it, v)
    elif isinstance(c, VecV):
        for v in vals:
            c.cells.append(Cell(v))
    else:
        raise Unsupported('extend on %r' % (c,))
    return UNIT


for _k in MAPS + SETS:
    MODELS['<%s as Extend>::extend' % _k] = _extend_coll
    MODELS['%s::extend' % _k] = _extend_coll
    MODELS['<%s as Clone>::clone' % _k] = lambda it, key, raw, args: deref(args[0]).clone_value(it)
    MODELS['<%s as PartialEq>::eq' % _k] = lambda it, key, raw, args: deref(args[0]).eq_value(it, deref(args[1]))
    MODELS['<%s as IntoIterator>::into_iter' % _k] = lambda it, key, raw, args: models_std.into_iter(it, args[0])
    MODELS['<&%s as IntoIterator>::into_iter' % _k] = lambda it, key, raw, args: models_std.into_iter(it, args[0])


@model('LazyEntry::key')
def _lazy_key(it, key, raw, args):
    return Ref(deref(args[0]).fields[0])


@model('LazyEntry::value')
def _lazy_value(it, key, raw, args):
    return deep_clone(deref(args[0]).fields[1].v)


@model('LazyEntry::into_pair')
def _lazy_into_pair(it, key, raw, args):
    e = deref(args[0])
    return tup(e.fields[0].v, e.fields[1].v)


# ---- ic_stable_structures::storable::Bound (enum read from the dependency's source by btc.load_dep_decls)
@model('Bound::max_size')
def _bound_max_size(it, key, raw, args):
    b = deref(args[0])
    if not b.fields:
        raise Panic('Cannot get max size of unbounded type.')
    return b.fields[0].v


@model('Bound::is_fixed_size')
def _bound_is_fixed(it, key, raw, args):
    b = deref(args[0])
    return b.fields[1].v if b.fields else SInt(0, 'bool')
