#!/bin/bash
# Offline setup after a fresh restore: warm the two build caches the checks use (everything else is Python).
set -e
cd "$(dirname "$0")"
export CARGO_NET_OFFLINE=true
mkdir -p .build evidence
[ -f replay/Cargo.lock ] || cp /repo/Cargo.lock replay/Cargo.lock
(cd replay && RUSTFLAGS='--cfg dfinity_bitcoin_canister_verif' cargo build --offline --release --target-dir ../.build/replay >/dev/null 2>../.build/replay_build.log) || { tail -30 .build/replay_build.log; exit 1; }
for p in ic-btc-canister ic-btc-validation watchdog ic-btc-interface ic-cdk-bitcoin-canister; do
  (cd /repo && cargo +nightly rustc --offline --lib -p $p --target-dir /verif/.build/mir -- -Zunpretty=mir -Awarnings >/dev/null 2>>/verif/.build/mir_build.log) || { tail -30 .build/mir_build.log; exit 1; }
done
python3-vt -c "import z3; print('z3', z3.get_version_string())"
echo setup ok
