#!/bin/bash
# usage: confirm_seed.sh <worktree> <demo test name filter> [cargo package]
# confirms a seeded change: existing tests pass with the patch, demo fails with it and passes without it
wt="$1"; filt="$2"; pkg="${3:-ic-btc-canister}"
cd "$wt" || exit 2
export CARGO_TARGET_DIR="$wt/target" CARGO_NET_OFFLINE=true
out="$wt/confirm.txt"; : > "$out"
git checkout -q -- . ; git apply patch.diff || { echo "patch does not apply" >> "$out"; exit 2; }
if [ -f demo.diff ]; then git apply demo.diff || { echo "demo.diff does not apply on top of patch" >> "$out"; }; fi
echo "== demo WITH patch" >> "$out"
cargo test --offline -p "$pkg" --lib -- "$filt" 2>&1 | grep -E "^test |test result|error" | head -20 >> "$out"
echo "== existing tests WITH patch" >> "$out"
cargo test --offline -p "$pkg" --lib 2>&1 | grep -E "test result|FAILED|failed" | head -30 >> "$out"
git apply -R patch.diff
echo "== demo WITHOUT patch" >> "$out"
cargo test --offline -p "$pkg" --lib -- "$filt" 2>&1 | grep -E "^test |test result|error" | head -20 >> "$out"
git checkout -q -- . ; git clean -fdq -e patch.diff -e demo.diff -e meta.txt -e confirm.txt -e 'demo*' -e target
rm -rf "$wt/target"
echo done >> "$out"
