#!/bin/bash
# usage: store_seed.sh <worktree> <seed id>   (copies the deliverables of a confirmed seeded change into /verif/seeded/<seed id>/)
wt="$1"; id="$2"
d="$(dirname "$0")/../seeded/$id"
mkdir -p "$d"
cp "$wt/patch.diff" "$d/patch.diff"
[ -f "$wt/demo.diff" ] && cp "$wt/demo.diff" "$d/demo.diff"
[ -f "$wt/confirm.txt" ] && grep -v "^   Compiling\|^ *[0-9]*: \|^warning" "$wt/confirm.txt" > "$d/confirm.txt"
[ -f "$wt/meta.txt" ] && cp "$wt/meta.txt" "$d/agent_meta.txt"
ls "$d"
