#!/usr/bin/env python3
"""Regression run of the machinery against the stored seeded changes: for every /verif/seeded/<id>/ apply patch.diff to /repo,
run the quick check(s) named in meta.json (detected_by.check), expect exit 1 with a VIOLATION line, restore /repo.
Writes seeded/RESULTS.md.  /repo must be clean; it is restored after every seed (git checkout -- .)."""
import json, os, re, subprocess, sys, time
V = os.path.dirname(os.path.dirname(os.path.abspath(__file__)))
REPO = os.environ.get('VERIF_REPO', '/repo')


def sh(cmd, **kw):
    return subprocess.run(cmd, shell=True, stdout=subprocess.PIPE, stderr=subprocess.STDOUT, text=True, **kw)


def main():
    only = sys.argv[1:]
    if sh('git -C %s status --porcelain' % REPO).stdout.strip():
        print('refusing: %s is not clean' % REPO)
        return 2
    rows = []
    for sid in sorted(os.listdir(os.path.join(V, 'seeded'))):
        d = os.path.join(V, 'seeded', sid)
        if not os.path.isdir(d) or (only and sid not in only):
            continue
        meta = json.load(open(os.path.join(d, 'meta.json')))
        det = meta.get('detected_by', {})
        ids = re.findall(r'check (C\d\d)', det.get('check', '')) or [meta['property']]
        ids = list(dict.fromkeys(ids))
        try:
            r = sh('git -C %s apply %s' % (REPO, os.path.join(d, 'patch.diff')))
            if r.returncode != 0:
                rows.append((sid, '-', 'patch does not apply: %s' % r.stdout.strip()[:80], 0))
                continue
            for cid in ids:
                t0 = time.time()
                r = sh('./check %s --tier quick' % cid, cwd=V)
                viol = re.findall(r'^VIOLATION property=\S+ replay=\S*/([^/\s]+)\.json', r.stdout, re.M)
                verdict = 'detected' if r.returncode == 1 and viol else ('INCONCLUSIVE (exit 2)' if r.returncode == 2 else 'MISSED (exit %d)' % r.returncode)
                rows.append((sid, cid, '%s %s' % (verdict, ', '.join(v.replace(cid + '_', '') for v in viol[:3])), round(time.time() - t0)))
                print(rows[-1], flush=True)
        finally:
            sh('git -C %s checkout -- .' % REPO)
    # a partial run (seed ids on the command line) does not overwrite the committed table
    with open(os.path.join(V, 'seeded', 'RESULTS.md' if not only else 'RESULTS.partial.md'), 'w') as f:
        f.write('# Seeded changes vs. the quick checks (tools/verify_seeds.py)\n\n| seed | check | result (roles) | s |\n|---|---|---|---|\n')
        for r in rows:
            f.write('| %s | %s | %s | %s |\n' % r)
    bad = [r for r in rows if not r[2].startswith('detected')]
    print('%d runs, %d not detected' % (len(rows), len(bad)))
    return 1 if bad else 0


if __name__ == '__main__':
    sys.exit(main())
