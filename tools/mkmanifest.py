#!/usr/bin/env python3
"""Regenerates MANIFEST.json from the table below (kept next to the checks so that both stay in sync)."""
import json, os
V = os.path.dirname(os.path.dirname(os.path.abspath(__file__)))
props = [json.loads(l) for l in open(os.path.join(V, 'properties.jsonl'))]
TECH = "SMT-decided symbolic execution of compiler MIR (z3, integer encoding; shapes enumerated, scalars symbolic), native replay of counterexamples"
CHECKS = {
 'C02': dict(text="bounded symbolic execution of the real MIR: for every arrival-ordered fork tree up to the stated size the solver decides, for all difficulty/timestamp/height values, that chain selection equals the property's rule and that blockchain_info, unfiltered get_utxos, get_balance and the header range use that chain",
             note="trusted: std container/iterator models, block hash = injective block id, ledger calls stubbed to recorders; bounds: trees <= 5 (quick) / 7 (thorough) blocks"),
 'C03': dict(text="bounded symbolic execution of get_stable_child / peek / pop / ingest_stable_blocks_into_utxoset from the MIR: every tree up to the bound x 3 networks with symbolic difficulties and threshold, plus skeletons with 1500-block tails for the testnet escape, decided against the rule of the statement in both directions; every pause/resume schedule of the stubbed ingestion",
             note="trusted: depth-bound f64 function replaced by the table of the real function evaluated natively per block count; UTXO ingestion stubbed to a pausing state machine; bounds: trees <= 5/6 blocks, tails of difficulty 1, threshold >= 1, difficulty < 2^64"),
 'C04': dict(text="bounded symbolic execution of get_main_chain + get_utxos_from_chain with symbolic min_confirmations on every tree up to the bound: the applied blocks and the named tip are the statement's block B; too-large c gives the explicit error with given/max",
             note="trusted: overlay content stubbed to a recorder (content is C01), block hash = injective id; bounds: trees <= 6/7 blocks"),
 'C05': dict(text="bounded symbolic execution of get_balance_private vs get_utxos_from_chain (and the query variants) on every tree up to the bound with symbolic c and nondeterministic address-parser outcome: same cut, same errors, same computation for query and update; the value part on the overlay is decided with C01",
             note="trusted: address text codec stubbed to its three outcomes; ledger lookups are recorders; known finding F4 (cut notions differ on forks) is listed in known_findings.json"),
 'C14': dict(text="symbolic execution of every gated wrapper of lib.rs with all flag / network combinations enumerated and the chain height and announced-header maximum symbolic: the inner API is reached iff the statement's condition holds and a refusal happens before any state write or cycles call; NextBlockHeaders bookkeeping on every tree up to the bound with symbolic stable height",
             note="trusted: inner API functions stubbed to recorders; Header::block_hash = injective id; BTreeMap model; all 432 flag/network combinations are additionally replayed natively through the public wrappers; send_transaction is decided with C19"),
 'C16': dict(text="symbolic execution of the charging code of every endpoint (real charge_cycles / verify_has_enough_cycles bodies over a model of the IC cycles API) with the whole fee table, attached cycles, instruction count and inner outcome symbolic: accepted total equals the published formula per outcome, is 0 for query variants, never exceeds the maximum, nothing is accepted on refusal; client costs of ic-cdk-bitcoin-canister vs the default fee tables from their MIR",
             note="assumes base <= maximum and flat fee <= maximum (tables violating it are reported, not judged); native replay drives the mocked cycles API through the cfg-guarded hooks; send_transaction's charge is decided with C19"),
 'C12': dict(text="symbolic execution of validate_block / ensure_unique_transactions from the MIR on blocks of up to 6/7 transactions with symbolic identities, coinbase flags and merkle verdict: Ok iff all four structural rules hold, error = first failing rule; real blocks incl. CVE-2012-2459 mutations are run natively through the hook",
             note="trusted: normalised txid = injective name; the merkle construction of the dependency (that a root-preserving mutation must repeat a transaction); header part is C11"),
 'C17': dict(text="symbolic execution of compare / calculate_height_target / median / calculate_target / Config::for_target from the watchdog MIR for every success/failure pattern of up to 5/6 explorer results with symbolic heights, symbolic or unknown canister height and the five targets, against the statement's rule written over order statistics (symmetric in the results); two fetch rounds through the real storage functions",
             note="trusted: sort model, HashMap/thread_local models; heights in [1000, 2^40); the HTTP fetch itself is not executed"),
 'C11': dict(text="symbolic execution of HeaderValidator::validate_header and its helpers from the MIR over a header-store window with every time/bits field, the candidate header, its proof-of-work value and the current time symbolic, for tip heights around multiples of 2016 and near genesis on four networks, against Bitcoin Core's rules (median-time-past, 2h rule, pow limit, retarget incl. BIP94, min-difficulty exception and walk-back) written in z3 over shared uninterpreted compact-target and retarget functions; 3-way concrete validation (rule / MIR / native) on real 80-byte headers",
             note="trusted: arithmetic of Target::from_compact and CompactTarget::from_next_work_required (uninterpreted in the symbolic part, exact python big-int versions in the concrete part), SHA-256d; walk-back depth bounded by the 12-header window; Signet not covered; the canister-side HeaderStore (ValidationContext) is part of C10"),
 'C19': dict(text="symbolic execution of the send_transaction coroutine (driven through its compiled poll function) with flags, both networks, payload length, fee table, attached cycles, decoder outcome and block-source reply (immediate, after a suspension, reject) symbolic or enumerated: forwarded iff counted iff gate open and payload is exactly one transaction; refusals trap before any effect; MalformedTransaction has no effect; cycles = base + per_byte*len",
             note="trusted: the dependency decoder is a stub with the contract of the function actually called (consensus_decode may leave bytes unread, deserialize may not); native witnesses (valid, valid+trailing byte, garbage, truncated, flag/network refusals) are run through the real endpoint"),
 'C13': dict(text="symbolic execution of the compiled heartbeat / maybe_fetch_blocks state machines (poll functions), the guard, the request builder, the response bookkeeping and maybe_process_response over every schedule of up to 8/10 events (start a heartbeat / deliver a reply to a suspended one, two overlapping), reply kinds chosen at delivery, the announced number of follow-ups a symbolic u8: one request outstanding, follow-ups 0,1,2.., reassembly = concatenation, clean state after reject, no blob processed twice, no trap, progress with a well-behaved source",
             note="trusted: get_successors transport and candid (stub future that suspends once); block decoding and insert_block are recorders (C10); upgrades while a request is in flight are outside; reply scripts are also run through the real heartbeat of the host build"),
 'C10': dict(text="symbolic execution of maybe_process_response + insert_block + ValidationContext::new + unstable_blocks::push (+ tree / cache / announced-header bookkeeping) on every tree up to 3/4 blocks and every response of up to 2/3 blocks (decodes?, parent among tree blocks / earlier response blocks / stable-only / unknown, re-send of an existing block, validator verdict): admitted iff new, connected, valid and all earlier ones admitted; exactly one error counter on the first failure, rest dropped, cache = tree, no trap; insert_next_block_headers on every 3-header script; the canister's HeaderStore implementation with symbolic stable height",
             note="trusted: validator verdicts are stubs (C11, C12 decide them), byte-level decoding, insert_outpoints (C20); real blocks (valid, duplicate, orphan, garbage, truncated, bad merkle root) are run through the real heartbeat natively"),
 'C08': dict(text="symbolic execution of UtxoSet::ingest_block / ingest_block_continue and everything below them, with every slicing-predicate call after the first of a round a nondeterministic choice (all pause-position sets of each block shape) and symbolic amounts: after every round the API-level readers (address UTXO sequence as get_utxos builds it, get_balance, get_utxo of address outputs, utxos_length) equal the pre-ingestion answers, resume positions increase, the final maps equal those of an unsliced run on the same path, ingestion finishes; heartbeat gating on Paused / Done(true)",
             note="trusted: ledger model (struct-level stable maps, injective ids, scripts as address names); block shapes are a fixed list (4 quick / 8 thorough); the same shapes are run through the real canister with forced pauses; known finding F11 (utxos_length) is listed"),
 'C20': dict(text="symbolic execution of UnstableBlocks::new / push / pop / insert_outpoints / OutPointsCache::remove / block-tree cache handling and ingest_stable_blocks_into_utxoset (with the real UTXO ingestion) on histories of transaction-carrying blocks (forks sharing transactions, outputs spent across forks, same-block spends, conflicting spends), blocks arriving one by one with an ingestion opportunity after each: block cache, per-block delta maps, output reference counts and cached tip depths equal exactly what the tree requires after every step, and no step traps",
             note="trusted: ledger model; histories = 4 handcrafted x 2 thresholds + seeded samples per tree shape (amounts symbolic); the same histories are replayed natively and the bookkeeping read back through the cfg-guarded hook after every step"),
}
NA = {
}
DEFAULT_NA = "check not built yet in this round (see DESIGN.md §5 for the planned kernel)"
m = {
 "version": 1,
 "setup_cmd": "./setup.sh",
 "hooks": {"guard": "dfinity_bitcoin_canister_verif",
           "enable": "RUSTFLAGS='--cfg dfinity_bitcoin_canister_verif' for the native replay crate only (runtime::verif_hooks: mocked cycles API and performance counter control); the MIR is always dumped with the guard off",
           "baseline_off_cmd": "cd /repo && cargo test --workspace --no-fail-fast --offline", "source_commits": ["3049359b", "0ef99e05", "26284dd7", "7c39898f"], "add_only": True},
 "engines": [
  {"name": "mirsym", "path": "mirsym/", "serves_properties": sorted(CHECKS), "kind_free_text": "symbolic execution of rustc MIR (regenerated from /repo on every run) with z3; heap shapes enumerated, scalars symbolic"},
  {"name": "replay", "path": "replay/", "serves_properties": sorted(CHECKS), "kind_free_text": "native Rust driver over the real canister code: translator validation and counterexample replay"}],
 "checks": [], "not_applicable": [],
 "notes": "exit codes: 0 held / 1 VIOLATION (replay-confirmed) / 2 inconclusive; known findings in known_findings.json"}
for pid in sorted(CHECKS):
    c = CHECKS[pid]
    m["checks"].append({
     "property_id": pid, "quick_cmd": "./check %s --tier quick" % pid, "thorough_cmd": "./check %s --tier thorough" % pid,
     "evidence_file": "evidence/%s.json" % pid, "replay_cmd_template": "./.build/replay/release/verif-replay {path}", "engine": "mirsym",
     "level_claimed": {"category": "model_checking", "text": c['text'], "design_ref": "DESIGN.md §5 " + pid},
     "level_note": c['note'], "technique": c.get('technique', TECH)})
for p in props:
    if p['id'] not in CHECKS:
        m["not_applicable"].append({"property_id": p['id'], "reason": NA.get(p['id'], DEFAULT_NA)})
json.dump(m, open(os.path.join(V, 'MANIFEST.json'), 'w'), indent=1)
print('claimed', sorted(CHECKS), 'n/a', len(m['not_applicable']))
